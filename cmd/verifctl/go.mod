module verif/verifctl

go 1.23
