// verifctl builds the instrumented harness for a property from /repo's
// current working tree, runs seeded simulation batches on all cores,
// minimises and replays failures, writes evidence and prints the verdict.
//
// Exit codes: 0 property held on everything explored (known findings are
// printed as KNOWN-FINDING lines), 1 violation (VIOLATION line), 2 trouble in
// the machinery itself (never a verdict).
package main

import (
	"encoding/json"
	"fmt"
	"os"
	"os/exec"
	"path/filepath"
	"runtime"
	"sort"
	"strconv"
	"strings"
	"sync"
	"time"
)

// repoDir is /repo; VERIF_REPO overrides it for experiments on scratch worktrees (mutant evaluation) only.
var repoDir = func() string {
	if r := os.Getenv("VERIF_REPO"); r != "" {
		return r
	}
	return "/repo"
}()

// verifDir is /verif; VERIF_DIR overrides it for background runs from a snapshot (vp run).
var verifDir = func() string {
	if r := os.Getenv("VERIF_DIR"); r != "" {
		return r
	}
	return "/verif"
}()

const (
	goBin = "/opt/veriftools/go1.26.8/bin/go"
)

type propCfg struct {
	Harness      string
	Pkgs         string
	FSPkgs       string
	ExtPkgs      string
	MapPkgs      string   // packages whose map accesses are reported to the happens-before race tracker
	Also         *propCfg // a second stage of the same property on another harness (run first, in a sub-process; merged into verdict and evidence)
	QuickRuns    int
	ThoroughRuns int
	RunsPerProc  int
	QuickWall    time.Duration // wall budget for the batch phase
	ThoroughWall time.Duration
	Level        string
	Rule         string
	Real         []string
	Stub         []string
	Assume       []string
}

var commonAssume = []string{
	"toolchain go1.26.8 with GODEBUG asynctimerchan=0 (testing/synctest fake clock); language semantics follow /repo/go.mod",
	"one-goroutine-at-a-time execution is sequentially consistent: plain loads/stores are not yield points",
	"select/lock/map-order rewrites are refinements of what the Go spec allows (DESIGN.md 2.2)",
	"lenient window: an observation overlapping a state change may see either state",
}

var props = map[string]*propCfg{
	"C01": {
		Harness: "modsim", Pkgs: "log,modules", QuickRuns: 12000, ThoroughRuns: 400000, RunsPerProc: 250,
		QuickWall: 60 * time.Second, ThoroughWall: 15 * time.Minute, Level: "exploration",
		Rule: "one evaluation = one simulated run (generated dependency graph, callback durations, failure placement, management rounds, seeded schedule); distinct = distinct hash of the normalised lifecycle event history; non-trivial = at least 2 goroutine switches or at least one injected lifecycle failure fired",
		Real: []string{"portbase/modules (all of it, instrumented)", "portbase/log (instrumented)", "tevino/abool"},
		Stub: []string{"log output adapter (discarding)"},
	},
}

func init() {
	c01 := props["C01"]
	for _, id := range []string{"C05", "C06"} {
		c := *c01
		c.QuickRuns, c.ThoroughRuns, c.RunsPerProc = 12000, 300000, 200
		c.Rule = "one evaluation = one simulated run (modules with generated managed work items: workers, service workers, tasks, microtasks of every priority and variant, event hooks; drain delays; stop by Shutdown or management pass; post-stop submissions; seeded schedule); distinct = distinct hash of the normalised lifecycle + work-item history; non-trivial = at least 2 goroutine switches or a fault fired"
		props[id] = &c
	}
	c7 := *c01
	c7.QuickRuns, c7.ThoroughRuns, c7.RunsPerProc = 10000, 300000, 200
	c7.Rule = "one evaluation = one simulated run (1-6 tasks with generated run times, max delays and self actions; 1-3 client goroutines issuing Queue/QueuePrioritized/StartASAP/Schedule/Cancel programs; optional microtask load; seeded schedule); distinct = distinct hash of the operation + execution history; non-trivial = at least 2 goroutine switches"
	c7.MapPkgs = "modules" // the three task lists (container/list) and the module maps
	props["C07"] = &c7
	c15 := *c01
	c15.QuickRuns, c15.ThoroughRuns, c15.RunsPerProc = 12000, 300000, 200
	c15.Rule = "one evaluation = one simulated run (limit 2-6, 1-8 submitter goroutines, 1-40 microtasks of every priority and variant with run times, errors, panics, repeated done calls; generous or tight max delays; seeded schedule); distinct = distinct hash of configuration + per-submission outcome + observed maximum concurrency; non-trivial = at least 2 goroutine switches or a fault fired"
	props["C15"] = &c15
	props["C04"] = &propCfg{
		Harness: "cfgsim", Pkgs: "log,modules,config", QuickRuns: 5000, ThoroughRuns: 400000, RunsPerProc: 250,
		QuickWall: 70 * time.Second, ThoroughWall: 15 * time.Minute, Level: "exploration",
		Rule: "one evaluation = one simulated run (3-10 registered options of all four types with regex / allowed values / validation function / release level; a generated history of set, set-default, replace, replace-default, save+load and release-level changes in either layer with values of every Go and JSON-decoded kind; reads through plain, concurrent and fresh getters after every step, or 1-6 reader goroutines concurrently with the setter; seeded schedule); distinct = distinct hash of the operation history and configuration; non-trivial = at least 2 goroutine switches",
		Real: []string{"portbase/config (instrumented)", "portbase/modules (instrumented; owner of the change event)", "portbase/log (instrumented, not started)", "config.json on the real file system in the scratch directory"},
		Stub: []string{"database controller (nil: pushUpdate is a no-op)"},
	}
	dbPkgs := "log,database,database/iterator,database/storage/hashmap,database/storage/fstree,database/storage/bbolt,database/storage/badger"
	props["C02"] = &propCfg{
		Harness: "dbsim", Pkgs: dbPkgs, ExtPkgs: "go.etcd.io/bbolt,github.com/bluele/gcache", QuickRuns: 6000, ThoroughRuns: 300000, RunsPerProc: 150,
		QuickWall: 75 * time.Second, ThoroughWall: 15 * time.Minute, Level: "exploration",
		Rule:   "one evaluation = one simulated run: a generated history of put, put-new, get, exists, delete, batch put, purge, absolute/relative expiry, record-state and full maintenance, queries (prefix incl. non-boundary prefixes, nested and/or/not over 17 operators), clock advances and cache clears through one database interface against backend in {hashmap, fstree, bbolt, badger} x shadow delete x cache {none, read cache, delayed-write cache}, compared step by step with a key-to-record map; plus producer/consumer schedules of a query that ends with an injected storage error; distinct = distinct hash of configuration + operation kinds; non-trivial = at least 2 goroutine switches",
		Real:   []string{"portbase/database incl. interface, controller, caches, iterator, maintenance (instrumented)", "storage backends hashmap, fstree (real directory), bbolt, badger (portbase side instrumented; bbolt/badger/gcache libraries real, uninstrumented)", "database/query, record, accessor (real)"},
		Stub:   []string{"simfault storage wrapper around hashmap for the query-error scenario (harness code)"},
		Assume: []string{"single client goroutine for the equality clauses: third-party libraries are never entered by two goroutines at once"},
	}
	c14 := *props["C02"]
	c14.Pkgs = dbPkgs + ",runtime,modules"
	c14.ExtPkgs += ",golang.org/x/sync/errgroup"
	c14.QuickRuns, c14.ThoroughRuns = 8000, 300000
	c14.Rule = "one evaluation = one simulated run: 1-3 writer goroutines (put with secret/crown-jewel flags, delete, get, push through an injected database - injected directly or through a runtime registry whose provider was registered before the injection) against 0-4 subscriptions (prefix, condition, privileges, cancel at a chosen moment, cancel twice, two subscriptions from one query object) and 0-3 hooks (declared phases, pass/veto/replace, cancel), backend in {hashmap, fstree, bbolt}; batch puts and delayed-write interfaces are not part of the writer workload (Controller.PutMany is documented not to update subscriptions); seeded schedule; distinct = distinct hash of configuration; non-trivial = at least 2 goroutine switches"
	c14.Stub = []string{"injected storage for the push-update path (harness code)"}
	c14.Assume = nil
	props["C14"] = &c14
	c03 := *props["C02"]
	c03.QuickRuns, c03.ThoroughRuns = 8000, 300000
	c03.Pkgs = dbPkgs + ",runtime,api,modules,config"
	c03.ExtPkgs += ",golang.org/x/sync/errgroup" // the runtime registry queries its providers through an errgroup: its goroutines must be the scheduler's
	c03.Rule = "one evaluation = one simulated run: a privileged interface writes records with every flag combination (at creation or later) and an interface with one of the three non-privileged Local/Internal combinations (with or without read cache) runs a generated sequence over get, exists, query, subscription feed, attribute insert, absolute/relative expiry, make-secret, make-crown-jewel, delete, purge, batch put, put and put-new; backend in {hashmap, fstree, bbolt} x shadow delete; after every client step the privileged view of every key is compared with the model; the client interface may delay its writes (DelayCachedWrites); on a fault-injecting backend the n-th storage read of a client step fails; distinct = distinct hash of the step kinds; non-trivial = at least 2 goroutine switches"
	c03.Stub = nil
	c03.Assume = []string{"the injected config database is not exercised (its options carry no flags); the runtime registry and the external database API (api.CreateDatabaseAPI) are"}
	props["C03"] = &c03
	props["C17"] = &propCfg{
		Harness: "fssim", Pkgs: "log,utils,utils/renameio,database/storage/fstree,updater", FSPkgs: "utils,utils/renameio,database/storage/fstree,updater",
		QuickRuns: 400, ThoroughRuns: 20000, RunsPerProc: 25,
		QuickWall: 75 * time.Second, ThoroughWall: 15 * time.Minute, Level: "fault_enumeration",
		Rule:   "one evaluation = one workload case (primitive in {renameio.WriteFile, TempFile+CloseAtomicallyReplace, renameio.Symlink, CreateAtomic, CopyFileAtomic, ReplaceFileAtomic, fstree Put, resource download through ResourceRegistry.GetFile with a scripted transport (truncated body, mid-body error, status 500, over-long body, retries), File.Unpack with UnpackGZIP, Resource.UnpackArchive of a zip} x destination state {absent, present, present with other mode} x old/new content size x temp-dir choice x 0-3 concurrent readers); per case the fault-free run is recorded and then EVERY mutating file-system call is enumerated as crash point (process killed immediately before it) and as ENOSPC/EIO error point, plus short writes (exception, probe fault-points-sampled: when a case has more than 60 mutating calls and more than 24 of them are chunk writes to the temporary file - multi-megabyte content - every call that is not a write plus the first, the last and 22 evenly spaced writes are taken); unpackzip cases additionally run two overlapping unpack calls for the same archive with readers; distinct = distinct case description; non-trivial = every case (each has at least one crash point); the number of enumerated fault points is reported as probe fault-points-enumerated",
		Real:   []string{"utils/renameio, utils (atomic helpers), database/storage/fstree, updater fetch/unpack (instrumented, os.* redirected to the disk seam)", "the real file system below a scratch directory"},
		Stub:   []string{"disk seam sim/simfs: logs every call, injects crash points / errno / short writes, otherwise passes through to package os"},
		Assume: []string{"a crash is modelled as 'nothing after the crash point has any effect' (deferred clean-up of the killed operation is suppressed); loss of un-fsynced data is not modelled by dropping data but checked on the call log (last write < fsync < rename)", "the download transport is a scripted http.RoundTripper installed as http.DefaultTransport; signature verification is not configured"},
	}
	c18 := *props["C17"]
	c18.QuickRuns, c18.ThoroughRuns, c18.Level = 6000, 400000, "exploration"
	c18.Rule = "one evaluation = one run of up to 12 generated names (segments a, b, '..', '.', empty, the root's own name, sibling names extending the root's name; leading/trailing separators) against one component (fstree Get/Put/Delete/Query, DirStructure EnsureAbsPath/EnsureRelPath/EnsureRelDir, ScanStorage root, zip unpacking entry) with the root at depth 1-4 of a sandbox containing sibling directories; oracle: every logged file-system call resolves inside the root or the temp location, a before/after snapshot of everything outside the root is identical, escaping names are rejected; distinct = distinct name set; non-trivial = at least one name escapes the root lexically"
	c18.Assume = []string{"symbolic links inside the root that point outside are not generated (the statement lists parent references, absolute paths and sibling prefixes)"}
	props["C18"] = &c18
	props["C12"] = &propCfg{
		Harness: "apisim", Pkgs: "log,modules,config,api,rng,database,database/iterator,database/storage/hashmap,database/storage/bbolt", ExtPkgs: "go.etcd.io/bbolt,github.com/bluele/gcache", QuickRuns: 8000, ThoroughRuns: 300000, RunsPerProc: 200,
		QuickWall: 75 * time.Second, ThoroughWall: 15 * time.Minute, Level: "exploration",
		Rule: "one evaluation = one simulated history of 3-18 steps: configure API keys (read/write permission, expiry), switch development mode, advance the clock (session TTL, key expiry), clean sessions, and requests to mainHandler.ServeHTTP with every method (incl. OPTIONS with/without preflight header, PATCH), a handler declaring any of 9 read/write permissions (NotFound, Dynamic, NotSupported, Anyone, User, Admin, Self, out of range) - a custom http.Handler or, in a third of the requests, a registered Endpoint of each function type (ActionFunc, DataFunc, StructFunc, RecordFunc, HandlerFunc) -, credentials (none, Bearer/Basic key valid/expired/unknown/0-3 bytes, malformed Authorization, session cookie valid/expired/unknown, scripted authenticator token/nil/error/denied with valid and invalid permissions, bridge address) and Origin headers; every response is compared with an independent decision function; every fourth run is a slice of the complete decision table (81 handler permission pairs x 9 methods x 20 credential states = 14580 cells, 12 cells per run, enumerated completely by the quick tier: probe table-cells-enumerated); distinct = distinct hash of the request/response sequence; non-trivial = at least one request was sent",
		Real: []string{"portbase/api router, authentication, request context (instrumented)", "portbase/config (real option registry and getters)", "portbase/modules (RunWorker, microtasks), portbase/log"},
		Stub: []string{"rng entropy feeders (generator seeded deterministically)", "no sockets: httptest recorder + mainHandler.ServeHTTP", "config-change event hook replaced by a direct call of the key import"},
	}
	c13 := *props["C12"]
	c13.QuickRuns, c13.ThoroughRuns, c13.RunsPerProc = 6000, 300000, 150
	c13.QuickWall = 110 * time.Second
	c13.Rule = "one evaluation = one simulated run: 1-3 DatabaseAPI connections (CreateDatabaseAPI with a recording send function) each sending 1-10 messages (get, query, sub, qsub, create, update, insert, delete, cancel of live/finished/unknown operations, raw malformed messages) with keys in and out of existing databases, valid and invalid query texts, payloads in JSON/CBOR/garbage, against a hashmap or bbolt database holding JSON, struct and RAW records, plus a concurrent privileged writer feeding subscriptions; every request is handled on its own goroutine as in production and the scheduler interleaves them; oracle: per-request reply automaton, reply IDs belong to the connection, terminal replies after quiescence, write->read-back JSON equality plus _meta, process survival; distinct = distinct hash of request/reply counts; non-trivial = at least 2 goroutine switches"
	c13.MapPkgs = "api,database,database/iterator,database/storage/hashmap,database/storage/bbolt,config,modules"
	c13.Stub = []string{"network: in a third of the runs the connections are gorilla websocket connections over an in-memory link to the package's websocket handler (real send queue, handler and writer workers; the link's blocking is the scheduler's), otherwise CreateDatabaseAPI with a recording send function"}
	props["C13"] = &c13
	props["C20"] = &propCfg{
		Harness: "logsim", Pkgs: "log", QuickRuns: 4000, ThoroughRuns: 150000, RunsPerProc: 100,
		QuickWall: 70 * time.Second, ThoroughWall: 15 * time.Minute, Level: "exploration",
		Rule: "one evaluation = one simulated run (1-8 producer goroutines logging up to 3000 lines of all severities from two origin packages, bursts of identical lines, context tracers, a control goroutine changing global and per-package levels, scheduled or free-running writer, slow adapter, Shutdown at a chosen moment; seeded schedule); distinct = distinct hash of configuration and output size; non-trivial = at least 2 goroutine switches",
		Real: []string{"portbase/log (all of it, instrumented)", "tevino/abool"},
		Stub: []string{"output adapter (recording, optionally slow)"},
	}
	// C06 has a second stage: the HTTP API request handler clause runs on the API harness
	c6api := *props["C12"]
	c6api.QuickRuns, c6api.ThoroughRuns, c6api.RunsPerProc = 2500, 80000, 200
	c6api.QuickWall, c6api.ThoroughWall = 45*time.Second, 6*time.Minute
	c6api.Rule = "second stage of C06 (API request handlers): the C12 request histories with every handler panicking, before or after it has started its response; oracle: the server survives, a handler that had not started its response is answered with 500, and exactly one panic error with the value and a stack trace arrives on the module error channel per panicking handler"
	props["C06"].Also = &c6api
	// C01 has a second stage on the same harness: modules with managed work (the stage is told apart by VERIF_STAGE,
	// which the sub-process and its workers inherit, and by the shape of the plan in replay files)
	c1work := *props["C05"]
	c1work.QuickRuns, c1work.ThoroughRuns = 5000, 150000
	c1work.QuickWall, c1work.ThoroughWall = 40*time.Second, 8*time.Minute
	c1work.Rule = "second stage of C01: the C05 workloads (modules with workers, service workers, tasks, microtasks, event hooks; stop by Shutdown or management pass); oracle: when a module's stop routine begins, every started module that depends on it has completely stopped, i.e. its stop routine and its managed work have returned (as long as they return within the stop timeout); distinct = distinct hash of the lifecycle + work-item history"
	props["C01"].Also = &c1work
	// C12: "never crash or hang the server" includes the runtime's abort on overlapping map accesses (sessions, keys)
	props["C12"].MapPkgs = "api,config"
}

func env() []string {
	e := os.Environ()
	e = append(e, "GOFLAGS=-mod=mod", "GOPROXY=off", "GOSUMDB=off", "GOTOOLCHAIN=local", "GOMAXPROCS=2")
	return e
}

func envBuild() []string {
	e := os.Environ()
	e = append(e, "GOFLAGS=-mod=mod", "GOPROXY=off", "GOSUMDB=off", "GOTOOLCHAIN=local")
	return e
}

func trouble(format string, a ...any) {
	fmt.Fprintf(os.Stderr, "verifctl: "+format+"\n", a...)
	os.Exit(2)
}

type buildResult struct {
	Scratch string
	Bin     string
	Stats   map[string]any
}

// build instruments /repo's current tree and links the harness test binary.
func build(id string, pc *propCfg) *buildResult {
	scratch := os.Getenv("VERIF_SCRATCH")
	if scratch == "" {
		scratch = fmt.Sprintf("/var/tmp/verif.%d", os.Getpid())
	}
	_ = os.RemoveAll(scratch)
	if err := os.MkdirAll(scratch, 0o755); err != nil {
		trouble("scratch: %v", err)
	}
	args := []string{"-repo", repoDir, "-verif", verifDir, "-out", scratch, "-harness", pc.Harness, "-pkgs", pc.Pkgs}
	if pc.FSPkgs != "" {
		args = append(args, "-fspkgs", pc.FSPkgs)
	}
	if os.Getenv("VERIF_RACE_ALL") == "1" && pc.MapPkgs == "" {
		// exploration aid: race tracking for a property that does not claim it (simkit switches it on likewise)
		pc.MapPkgs = pc.Pkgs
	}
	if pc.MapPkgs != "" {
		args = append(args, "-mappkgs", pc.MapPkgs)
	}
	if pc.ExtPkgs != "" {
		args = append(args, "-extpkgs", pc.ExtPkgs)
	}
	cmd := exec.Command(filepath.Join(verifDir, "bin/simify"), args...)
	cmd.Env = envBuild()
	if out, err := cmd.CombinedOutput(); err != nil {
		os.RemoveAll(scratch)
		trouble("simify failed (the tree may not type-check): %v\n%s", err, out)
	}
	bin := filepath.Join(scratch, pc.Harness+".test")
	cmd = exec.Command(goBin, "test", "-c", "-overlay="+filepath.Join(scratch, "overlay.json"),
		"-modfile="+filepath.Join(scratch, "go.mod"), "-vet=off", "-o", bin, "./verifsim/harness/"+pc.Harness)
	cmd.Dir = repoDir
	cmd.Env = envBuild()
	if out, err := cmd.CombinedOutput(); err != nil {
		os.RemoveAll(scratch)
		trouble("build of instrumented harness failed: %v\n%s", err, out)
	}
	br := &buildResult{Scratch: scratch, Bin: bin, Stats: map[string]any{}}
	if b, err := os.ReadFile(filepath.Join(scratch, "simify-stats.json")); err == nil {
		_ = json.Unmarshal(b, &br.Stats)
	}
	return br
}

type replayFile struct {
	Harness   string          `json:"harness"`
	Property  string          `json:"property"`
	Seed      uint64          `json:"seed"`
	Run       int             `json:"run"`
	Tier      string          `json:"tier"`
	Plan      json.RawMessage `json:"plan"`
	Config    json.RawMessage `json:"config"`
	Choices   []int           `json:"choices"`
	Class     string          `json:"class"`
	Witness   string          `json:"witness"`
	Detail    string          `json:"detail,omitempty"`
	Trace     json.RawMessage `json:"trace,omitempty"`
	Minimised bool            `json:"minimised"`
	Crash     bool            `json:"crash,omitempty"`
	// ContextFrom > 0 (stored +1): the failure reproduces only when the runs from this index up to Run are executed
	// in one process (state outside the simulator, e.g. memory a library re-uses); replay re-runs that stretch.
	ContextFrom int `json:"context_from,omitempty"`
}

type summary struct {
	Property    string            `json:"property"`
	Runs        int               `json:"runs"`
	Steps       int64             `json:"steps"`
	SimTimeS    float64           `json:"sim_time_s"`
	WallS       float64           `json:"wall_s"`
	Strategies  map[string]int    `json:"strategies"`
	Faults      map[string]int    `json:"faults"`
	Probes      map[string]int    `json:"probes"`
	HistHashes  []uint64          `json:"hist_hashes"`
	SchedHashes []uint64          `json:"sched_hashes"`
	Nontrivial  []uint64          `json:"nontrivial_hashes"`
	Stalls      int               `json:"stalls_inconclusive"`
	StepCaps    int               `json:"step_caps"`
	Leaked      int               `json:"leaked_goroutines"`
	Foreign     int               `json:"foreign_goroutines"`
	SelMulti    int               `json:"select_multi_ready"`
	LockCont    int               `json:"lock_contended"`
	Inconcl     map[string]int    `json:"inconclusive"`
	Failures    []replayFile      `json:"failures"`
	FailCounts  map[string]int    `json:"fail_counts"`
	Samples     []json.RawMessage `json:"samples"`
	Progress    int               `json:"progress"`
}

type knownFindings struct {
	Findings []struct {
		Property        string `json:"property"`
		Class           string `json:"class"`
		WitnessContains string `json:"witness_contains"`
		What            string `json:"what"`
	} `json:"findings"`
	Fixed []string `json:"fixed"`
}

func loadKnown() *knownFindings {
	kf := &knownFindings{}
	b, err := os.ReadFile(filepath.Join(verifDir, "known-findings.json"))
	if err != nil {
		return kf
	}
	if err := json.Unmarshal(b, kf); err != nil {
		trouble("known-findings.json: %v", err)
	}
	return kf
}

// runTimeout is the real-time watchdog per simulated run: generous where one run enumerates hundreds of fault cases
// over multi-megabyte files (a loaded machine must not turn a long run into "trouble").
func runTimeout(pc *propCfg) time.Duration {
	if pc.Harness == "fssim" {
		return 6 * time.Minute
	}
	return 90 * time.Second
}

func (kf *knownFindings) match(id, class, witness string) (string, bool) {
	for _, f := range kf.Findings {
		if f.Property == id && f.Class == class && strings.Contains(witness, f.WitnessContains) {
			return f.What, true
		}
	}
	return "", false
}

func runWorker(bin string, args []string, logPath string, timeout time.Duration) (int, error) {
	cmd := exec.Command(bin, args...)
	cmd.Env = env()
	lf, err := os.Create(logPath)
	if err != nil {
		return -1, err
	}
	defer lf.Close()
	cmd.Stdout = lf
	cmd.Stderr = lf
	cmd.Dir = filepath.Dir(bin)
	if err := cmd.Start(); err != nil {
		return -1, err
	}
	done := make(chan error, 1)
	go func() { done <- cmd.Wait() }()
	select {
	case err := <-done:
		if err == nil {
			return 0, nil
		}
		if ee, ok := err.(*exec.ExitError); ok {
			return ee.ExitCode(), nil
		}
		return -1, err
	case <-time.After(timeout):
		_ = cmd.Process.Kill()
		<-done
		return -2, nil
	}
}

func tail(path string, n int) string {
	b, err := os.ReadFile(path)
	if err != nil {
		return ""
	}
	if len(b) > n {
		b = b[len(b)-n:]
	}
	return string(b)
}

func main() {
	if len(os.Args) < 2 {
		trouble("usage: verifctl check <id> [--tier quick|thorough] | replay <file> | determinism <id>")
	}
	switch os.Args[1] {
	case "check":
		check(os.Args[2:])
	case "replay":
		replayCmd(os.Args[2:])
	case "determinism":
		determinism(os.Args[2:])
	default:
		trouble("unknown command %s", os.Args[1])
	}
}

func parseTier(args []string) (id, tier string, runs int) {
	tier = os.Getenv("VERIF_TIER")
	for i := 0; i < len(args); i++ {
		switch {
		case args[i] == "--tier" && i+1 < len(args):
			tier = args[i+1]
			i++
		case args[i] == "--runs" && i+1 < len(args):
			runs, _ = strconv.Atoi(args[i+1])
			i++
		case id == "":
			id = args[i]
		}
	}
	if tier != "thorough" {
		tier = "quick"
	}
	return
}

func seedFromEnv() uint64 {
	if s := os.Getenv("VERIF_SEED"); s != "" {
		if v, err := strconv.ParseUint(s, 10, 64); err == nil {
			return v
		}
		if v, err := strconv.ParseInt(s, 10, 64); err == nil {
			return uint64(v)
		}
	}
	return 1
}

func check(args []string) {
	id, tier, runsOverride := parseTier(args)
	pc := props[id]
	if pc == nil {
		trouble("unknown property %q", id)
	}
	evName := id
	var alsoOut string
	alsoExit := 0
	if os.Getenv("VERIF_STAGE") == "also" {
		if pc.Also == nil {
			trouble("property %s has no second stage", id)
		}
		pc = pc.Also
		evName = id + ".also"
	} else if pc.Also != nil {
		// second stage first, in a process of its own
		a := []string{"check", id, "--tier", tier}
		if runsOverride > 0 {
			a = append(a, "--runs", fmt.Sprint(runsOverride/4+1))
		}
		cmd := exec.Command(os.Args[0], a...)
		cmd.Env = append(os.Environ(), "VERIF_STAGE=also")
		cmd.Stderr = os.Stderr
		ob, err := cmd.Output()
		alsoOut = string(ob)
		if err != nil {
			if ee, ok := err.(*exec.ExitError); ok {
				alsoExit = ee.ExitCode()
			} else {
				trouble("second stage: %v", err)
			}
		}
		for _, l := range strings.Split(alsoOut, "\n") {
			if strings.HasPrefix(l, "VIOLATION ") || strings.HasPrefix(l, "KNOWN-FINDING:") || strings.HasPrefix(l, "  class=") || strings.HasPrefix(l, "  detail=") {
				fmt.Println(l)
			} else if strings.HasPrefix(l, "verifctl: "+id+" runs=") {
				fmt.Println(strings.Replace(l, "verifctl: "+id, "verifctl: "+id+" (stage "+pc.Also.Harness+")", 1))
			}
		}
		if alsoExit != 0 && alsoExit != 1 {
			fmt.Print(alsoOut)
			trouble("second stage of %s ended with exit code %d", id, alsoExit)
		}
	}
	seed := seedFromEnv()
	start := time.Now()
	fmt.Printf("verifctl: property=%s tier=%s VERIF_SEED=%d\n", id, tier, seed)
	br := build(id, pc)
	defer os.RemoveAll(br.Scratch)
	buildS := time.Since(start).Seconds()
	total := pc.QuickRuns
	wall := pc.QuickWall
	if tier == "thorough" {
		total = pc.ThoroughRuns
		wall = pc.ThoroughWall
	}
	if runsOverride > 0 {
		total = runsOverride
	}
	workers := runtime.NumCPU()
	if workers > 16 {
		workers = 16
	}
	if w, err := strconv.Atoi(os.Getenv("VERIF_WORKERS")); err == nil && w > 0 && w < workers {
		workers = w
	}
	// chunks
	type chunk struct{ from, to int }
	var chunks []chunk
	for a := 0; a < total; a += pc.RunsPerProc {
		b := a + pc.RunsPerProc
		if b > total {
			b = total
		}
		chunks = append(chunks, chunk{a, b})
	}
	deadline := time.Now().Add(wall)
	var mu sync.Mutex
	var sums []*summary
	var crashes []replayFile
	infra := ""
	next := 0
	var wg sync.WaitGroup
	for w := 0; w < workers; w++ {
		wg.Add(1)
		go func(w int) {
			defer wg.Done()
			for {
				mu.Lock()
				if next >= len(chunks) || time.Now().After(deadline) || infra != "" {
					mu.Unlock()
					return
				}
				ci := next
				next++
				mu.Unlock()
				c := chunks[ci]
				from := c.from
				chunkCrashes := 0
				for from < c.to {
					out := filepath.Join(br.Scratch, fmt.Sprintf("sum-%d-%d.json", ci, from))
					logp := filepath.Join(br.Scratch, fmt.Sprintf("log-%d-%d.txt", ci, from))
					remain := time.Until(deadline)
					if remain < time.Second {
						remain = time.Second
					}
					code, err := runWorker(br.Bin, []string{"-test.run", "^TestSim$", "-test.timeout", "0",
						"-sim.mode", "batch", "-sim.prop", id, "-sim.seed", fmt.Sprint(seed), "-sim.from", fmt.Sprint(from), "-sim.to", fmt.Sprint(c.to),
						"-sim.tier", tier, "-sim.out", out, "-sim.wall", remain.String(), "-sim.runtimeout", runTimeout(pc).String()}, logp, remain+90*time.Second+runTimeout(pc))
					var s summary
					b, rerr := os.ReadFile(out)
					if rerr == nil {
						rerr = json.Unmarshal(b, &s)
					}
					if err != nil || code == -2 || code == 3 || (rerr != nil && code == 0) {
						mu.Lock()
						infra = fmt.Sprintf("worker chunk %d (runs %d..%d) exit=%d err=%v readerr=%v\n%s", ci, from, c.to, code, err, rerr, tail(logp, 3000))
						mu.Unlock()
						return
					}
					if code != 0 {
						// the worker process died in run s.Progress: an uncontained panic or fatal error
						idx := -1
						if pb, perr := os.ReadFile(out + ".progress"); perr == nil {
							if v, cerr := strconv.Atoi(strings.TrimSpace(string(pb))); cerr == nil {
								idx = v
							}
						}
						mu.Lock()
						if rerr == nil {
							sums = append(sums, &s)
						}
						crashes = append(crashes, replayFile{Harness: pc.Harness, Property: id, Seed: seed, Run: idx, Tier: tier, Crash: true,
							Class: id + ".process-died", Witness: "worker process terminated", Detail: tail(logp, 1500)})
						mu.Unlock()
						chunkCrashes++
						if idx < 0 || chunkCrashes >= 3 {
							break
						}
						from = idx + 1
						os.Remove(logp)
						continue
					}
					mu.Lock()
					sums = append(sums, &s)
					mu.Unlock()
					os.Remove(out)
					os.Remove(logp)
					break
				}
			}
		}(w)
	}
	wg.Wait()
	if infra != "" {
		trouble("simulation worker trouble (not a verdict): %s", infra)
	}
	// merge
	agg := &summary{Strategies: map[string]int{}, Faults: map[string]int{}, Probes: map[string]int{}, Inconcl: map[string]int{}, FailCounts: map[string]int{}}
	hist, sched, nontriv := map[uint64]bool{}, map[uint64]bool{}, map[uint64]bool{}
	firstFail := map[string]replayFile{}
	for _, s := range sums {
		agg.Runs += s.Runs
		agg.Steps += s.Steps
		agg.SimTimeS += s.SimTimeS
		agg.StepCaps += s.StepCaps
		agg.Leaked += s.Leaked
		agg.Foreign += s.Foreign
		agg.SelMulti += s.SelMulti
		agg.LockCont += s.LockCont
		for k, v := range s.Strategies {
			agg.Strategies[k] += v
		}
		for k, v := range s.Faults {
			agg.Faults[k] += v
		}
		for k, v := range s.Probes {
			agg.Probes[k] += v
		}
		for k, v := range s.Inconcl {
			agg.Inconcl[k] += v
		}
		for k, v := range s.FailCounts {
			agg.FailCounts[k] += v
		}
		for _, h := range s.HistHashes {
			hist[h] = true
		}
		for _, h := range s.SchedHashes {
			sched[h] = true
		}
		for _, h := range s.Nontrivial {
			nontriv[h] = true
		}
		for _, f := range s.Failures {
			k := f.Class + "|" + f.Witness
			if old, ok := firstFail[k]; !ok || f.Run < old.Run {
				firstFail[k] = f
			}
		}
		if len(agg.Samples) < 3 {
			agg.Samples = append(agg.Samples, s.Samples...)
		}
	}
	if len(agg.Samples) > 3 {
		agg.Samples = agg.Samples[:3]
	}
	if agg.Runs == 0 && len(crashes) == 0 {
		trouble("no simulated run completed")
	}
	for _, c := range crashes {
		k := c.Class + "|" + c.Witness
		if old, ok := firstFail[k]; !ok || (c.Run >= 0 && c.Run < old.Run) {
			firstFail[k] = c
		}
		agg.FailCounts[k]++
	}
	// triage
	kf := loadKnown()
	var keys []string
	for k := range firstFail {
		keys = append(keys, k)
	}
	sort.Strings(keys)
	_ = os.MkdirAll(filepath.Join(verifDir, "replays"), 0o755)
	violations := 0
	var vioList []map[string]any
	var notReproduced []string
	knownSeen := map[string]bool{}
	for _, k := range keys {
		f := firstFail[k]
		final, reproduced := confirm(br, pc, f)
		if !reproduced {
			// not a verdict: set aside; if nothing else reproduces either, the check ends as trouble (exit 2)
			notReproduced = append(notReproduced, fmt.Sprintf("%s / %s (seed=%d run=%d)", f.Class, f.Witness, f.Seed, f.Run))
			fmt.Printf("verifctl: a reported failure did not reproduce on replay and is not counted: %s\n", notReproduced[len(notReproduced)-1])
			continue
		}
		if what, ok := kf.match(id, final.Class, final.Witness); ok {
			if !knownSeen[what] {
				knownSeen[what] = true
				fmt.Printf("KNOWN-FINDING: property=%s %s\n", id, what)
			}
			continue
		}
		path := filepath.Join(verifDir, "replays", fmt.Sprintf("%s-%d-%d.json", evName, final.Seed, final.Run))
		b, _ := json.MarshalIndent(final, "", " ")
		if err := os.WriteFile(path, b, 0o644); err != nil {
			trouble("write replay: %v", err)
		}
		violations++
		vioList = append(vioList, map[string]any{"class": final.Class, "witness": final.Witness, "detail": final.Detail, "replay": path, "occurrences": agg.FailCounts[f.Class+"|"+f.Witness]})
		fmt.Printf("VIOLATION property=%s replay=%s\n", id, path)
		fmt.Printf("  class=%s witness=%q\n  detail=%s\n", final.Class, final.Witness, final.Detail)
	}
	if violations == 0 && len(notReproduced) > 0 {
		trouble("reported failures did not reproduce on replay (simulator trouble, not a verdict): %s", strings.Join(notReproduced, "; "))
	}
	wallS := time.Since(start).Seconds()
	// evidence
	ev := map[string]any{
		"property_id": id, "tier": tier, "seed": seed, "level": pc.Level, "wall_s": wallS, "violations": violations,
		"assumptions": append(append([]string{}, commonAssume...), pc.Assume...),
		"coverage": map[string]any{
			"evaluations":            agg.Runs,
			"distinct_nontrivial":    len(nontriv),
			"rule":                   pc.Rule,
			"samples":                agg.Samples,
			"exhaustive":             false,
			"runs_per_hour":          float64(agg.Runs) / (wallS - buildS) * 3600,
			"build_s":                buildS,
			"steps_total":            agg.Steps,
			"simulated_time_total_s": agg.SimTimeS,
			"schedule_strategies":    agg.Strategies,
			"distinct_schedules":     len(sched),
			"distinct_histories":     len(hist),
			"faults_fired":           agg.Faults,
			"probes":                 agg.Probes,
			"components_real":        pc.Real,
			"components_stub":        pc.Stub,
			"instrumentation":        br.Stats,
			"leaked_goroutines":      agg.Leaked,
			"foreign_goroutines":     agg.Foreign,
			"select_multi_ready":     agg.SelMulti,
			"lock_contended":         agg.LockCont,
			"inconclusive_runs":      agg.Inconcl,
			"step_caps":              agg.StepCaps,
			"failure_counts":         agg.FailCounts,
			"known_findings_seen":    len(knownSeen),
			"violation_list":         vioList,
			"failures_not_reproduced": notReproduced,
			"workers":                workers,
		},
	}
	_ = os.MkdirAll(filepath.Join(verifDir, "evidence"), 0o755)
	if evName == id && pc.Also != nil {
		// merge the second stage
		sp := filepath.Join(verifDir, "evidence", id+".also.json")
		if sb, err := os.ReadFile(sp); err == nil {
			var sev map[string]any
			if json.Unmarshal(sb, &sev) == nil {
				cov := ev["coverage"].(map[string]any)
				cov["second_stage"] = map[string]any{"harness": pc.Also.Harness, "coverage": sev["coverage"], "violations": sev["violations"], "wall_s": sev["wall_s"]}
				if v, ok := sev["violations"].(float64); ok {
					ev["violations"] = violations + int(v)
				}
			}
			_ = os.Remove(sp)
		}
	}
	eb, _ := json.MarshalIndent(ev, "", " ")
	if err := os.WriteFile(filepath.Join(verifDir, "evidence", evName+".json"), eb, 0o644); err != nil {
		trouble("write evidence: %v", err)
	}
	fmt.Printf("verifctl: %s runs=%d distinct_histories=%d distinct_schedules=%d steps=%d sim_time=%.0fs wall=%.1fs (build %.1fs) violations=%d known=%d\n",
		id, agg.Runs, len(hist), len(sched), agg.Steps, agg.SimTimeS, wallS, buildS, violations, len(knownSeen))
	if violations > 0 || alsoExit == 1 {
		os.RemoveAll(br.Scratch)
		os.Exit(1)
	}
}

// confirm minimises a failure and replays the result in a fresh process.
func confirm(br *buildResult, pc *propCfg, f replayFile) (replayFile, bool) {
	in := filepath.Join(br.Scratch, "fail-in.json")
	b, _ := json.Marshal(f)
	_ = os.WriteFile(in, b, 0o644)
	cur := f
	if !f.Crash {
		out := filepath.Join(br.Scratch, "fail-min.json")
		os.Remove(out)
		code, _ := runWorker(br.Bin, []string{"-test.run", "^TestSim$", "-test.timeout", "0", "-sim.mode", "minimise", "-sim.prop", f.Property,
			"-sim.file", in, "-sim.out", out, "-sim.wall", "40s"}, filepath.Join(br.Scratch, "min.log"), 4*time.Minute)
		if code == 0 {
			if mb, err := os.ReadFile(out); err == nil {
				var m replayFile
				if json.Unmarshal(mb, &m) == nil && m.Class != "" {
					cur = m
				}
			}
		}
	}
	cls, wit, det, died := replayOnce(br, cur)
	if cur.Crash {
		if died {
			return cur, true
		}
		return cur, false
	}
	if cls == cur.Class {
		cur.Witness, cur.Detail = wit, det
		return cur, true
	}
	// fall back to the unminimised failure
	cls, wit, det, _ = replayOnce(br, f)
	if cls == f.Class {
		f.Witness, f.Detail = wit, det
		return f, true
	}
	// last resort: the failure may depend on what the worker process did before this run, through state the simulator
	// does not own (memory re-used by a library, ...). Re-run the stretch of runs of its chunk up to it.
	if pc.RunsPerProc > 0 {
		from := (f.Run / pc.RunsPerProc) * pc.RunsPerProc
		f.ContextFrom = from + 1
		cls, wit, det, _ = replayOnce(br, f)
		if cls == f.Class {
			f.Witness, f.Detail = wit, det+" (reproduces only after the preceding runs of its worker process, from run "+fmt.Sprint(from)+")"
			return f, true
		}
		f.ContextFrom = 0
	}
	return f, false
}

func replayOnce(br *buildResult, f replayFile) (class, witness, detail string, died bool) {
	in := filepath.Join(br.Scratch, "replay-in.json")
	out := filepath.Join(br.Scratch, "replay-out.json")
	os.Remove(out)
	logp := filepath.Join(br.Scratch, "replay.log")
	if f.Crash {
		// re-run the single run by index
		code, _ := runWorker(br.Bin, []string{"-test.run", "^TestSim$", "-test.timeout", "0", "-sim.mode", "batch", "-sim.prop", f.Property,
			"-sim.seed", fmt.Sprint(f.Seed), "-sim.from", fmt.Sprint(f.Run), "-sim.to", fmt.Sprint(f.Run + 1), "-sim.tier", f.Tier, "-sim.out", out}, logp, 3*time.Minute)
		return f.Class, f.Witness, tail(logp, 1500), code != 0 && code != -2 && code != 3
	}
	if f.ContextFrom > 0 {
		// re-run the stretch [ContextFrom-1, Run] in one process and look for the failure of run Run
		code, _ := runWorker(br.Bin, []string{"-test.run", "^TestSim$", "-test.timeout", "0", "-sim.mode", "batch", "-sim.prop", f.Property,
			"-sim.seed", fmt.Sprint(f.Seed), "-sim.from", fmt.Sprint(f.ContextFrom - 1), "-sim.to", fmt.Sprint(f.Run + 1), "-sim.tier", f.Tier, "-sim.out", out, "-sim.perrun", out + ".runs"}, logp, 10*time.Minute)
		if code != 0 {
			return "", "", tail(logp, 1500), true
		}
		rb, err := os.ReadFile(out + ".runs")
		if err != nil {
			return "", "", "", false
		}
		// one line per run: "<index> <history hash> <schedule hash> steps=<n> <class>/<witness>"
		for _, line := range strings.Split(string(rb), "\n") {
			fs := strings.SplitN(line, " ", 5)
			if len(fs) == 5 && fs[0] == fmt.Sprint(f.Run) {
				cw := strings.SplitN(fs[4], "/", 2)
				if len(cw) == 2 && cw[0] == f.Class {
					return cw[0], cw[1], f.Detail, false
				}
			}
		}
		return "", "", "", false
	}
	b, _ := json.Marshal(f)
	_ = os.WriteFile(in, b, 0o644)
	code, _ := runWorker(br.Bin, []string{"-test.run", "^TestSim$", "-test.timeout", "0", "-sim.mode", "replay", "-sim.prop", f.Property,
		"-sim.file", in, "-sim.out", out}, logp, 3*time.Minute)
	if code != 0 {
		return "", "", tail(logp, 1500), true
	}
	var res struct {
		Class, Witness, Detail string
	}
	rb, err := os.ReadFile(out)
	if err != nil || json.Unmarshal(rb, &res) != nil {
		return "", "", "", false
	}
	return res.Class, res.Witness, res.Detail, false
}

func replayCmd(args []string) {
	if len(args) < 1 {
		trouble("usage: verifctl replay <file>")
	}
	b, err := os.ReadFile(args[0])
	if err != nil {
		trouble("%v", err)
	}
	var f replayFile
	if err := json.Unmarshal(b, &f); err != nil {
		trouble("%v", err)
	}
	pc := props[f.Property]
	if pc == nil {
		trouble("unknown property %q", f.Property)
	}
	if f.Harness != "" && pc.Harness != f.Harness && pc.Also != nil && pc.Also.Harness == f.Harness {
		pc = pc.Also
	}
	br := build(f.Property, pc)
	defer os.RemoveAll(br.Scratch)
	cls, wit, det, died := replayOnce(br, f)
	if (f.Crash && died) || (!f.Crash && cls == f.Class && cls != "") {
		fmt.Printf("VIOLATION property=%s replay=%s\n  class=%s witness=%q\n  detail=%s\n", f.Property, args[0], f.Class, wit, det)
		os.RemoveAll(br.Scratch)
		os.Exit(1)
	}
	fmt.Printf("replay of %s: violation not reproduced on this tree (class now %q)\n", args[0], cls)
}

// determinism runs the same runs in many processes at several GOMAXPROCS and
// compares history and schedule hashes.
func determinism(args []string) {
	id, tier, runs := parseTier(args)
	pc := props[id]
	if pc == nil {
		trouble("unknown property %q", id)
	}
	if runs == 0 {
		runs = 60
	}
	br := build(id, pc)
	defer os.RemoveAll(br.Scratch)
	seed := seedFromEnv()
	type res struct {
		hist, sched string
	}
	var mu sync.Mutex
	results := map[int][]string{}
	var wg sync.WaitGroup
	sem := make(chan struct{}, 16)
	procs := 0
	for _, gmp := range []string{"1", "4", "16"} {
		for rep := 0; rep < 12; rep++ {
			procs++
			wg.Add(1)
			go func(gmp string, rep int) {
				defer wg.Done()
				sem <- struct{}{}
				defer func() { <-sem }()
				// each process runs all runs, but starting at a different offset so that
				// in-process contamination between runs shows up as a difference
				out := filepath.Join(br.Scratch, fmt.Sprintf("det-%s-%d", gmp, rep))
				for part, rng := range [][2]int{{rep % runs, runs}, {0, rep % runs}} {
					if rng[0] == rng[1] {
						continue
					}
					cmd := exec.Command(br.Bin, "-test.run", "^TestSim$", "-test.timeout", "0", "-sim.mode", "batch", "-sim.prop", id,
						"-sim.seed", fmt.Sprint(seed), "-sim.from", fmt.Sprint(rng[0]), "-sim.to", fmt.Sprint(rng[1]), "-sim.tier", tier,
						"-sim.out", fmt.Sprintf("%s-%d.json", out, part), "-sim.perrun", fmt.Sprintf("%s-%d.runs", out, part))
					cmd.Env = append(envBuild(), "GOMAXPROCS="+gmp)
					cmd.Dir = br.Scratch
					if o, err := cmd.CombinedOutput(); err != nil {
						mu.Lock()
						results[-1] = append(results[-1], fmt.Sprintf("process failed: %v\n%s", err, tailStr(string(o), 2000)))
						mu.Unlock()
						return
					}
					b, err := os.ReadFile(fmt.Sprintf("%s-%d.runs", out, part))
					if err != nil {
						continue
					}
					mu.Lock()
					for _, line := range strings.Split(strings.TrimSpace(string(b)), "\n") {
						fs := strings.SplitN(line, " ", 2)
						if len(fs) == 2 {
							i, _ := strconv.Atoi(fs[0])
							results[i] = append(results[i], strings.TrimSpace(fs[1]))
						}
					}
					mu.Unlock()
				}
			}(gmp, rep)
		}
	}
	wg.Wait()
	if len(results[-1]) > 0 {
		trouble("determinism: %s", results[-1][0])
	}
	bad := 0
	for i := 0; i < runs; i++ {
		r := results[i]
		for _, x := range r[1:] {
			if x != r[0] {
				bad++
				fmt.Printf("NONDETERMINISM run=%d: %q vs %q\n", i, r[0], x)
				break
			}
		}
	}
	fmt.Printf("determinism %s: %d runs x %d processes (GOMAXPROCS 1/4/16), %d diverging\n", id, runs, procs, bad)
	if bad > 0 {
		os.RemoveAll(br.Scratch)
		os.Exit(2)
	}
}

func tailStr(s string, n int) string {
	if len(s) > n {
		return s[len(s)-n:]
	}
	return s
}
