#!/usr/bin/env python3
"""Writes seeded/<ID>/<name>/meta.json for the later rounds and prints a markdown table from an eval_seeded.sh log.
usage: seeded_table.py <eval log> [<confirm log> ...]"""
import json, os, re, sys, glob
ev = {}
for line in open(sys.argv[1]):
    m = re.match(r'^(C\d\d) (\S+): exit=(\d+) ?(.*)$', line.strip())
    if m:
        ev[(m.group(1), m.group(2))] = (int(m.group(3)), m.group(4).strip())
conf = {}
for f in sys.argv[2:]:
    wave = 'w' + re.search(r'confirm(\d)', f).group(1)
    for line in open(f):
        m = re.match(r'^(C\d\d) (m\d): pkg=(\S+) run=(\S+) \| clean: (.*?) \| mutant: (.*?) \| build: (.*?) \| pkg test fails with mutant: (.*)$', line.strip())
        if m:
            conf[(m.group(1), wave + m.group(2))] = dict(package=m.group(3), test=m.group(4), clean_tree=m.group(5).strip(), with_patch=m.group(6).strip(),
                                                         build_with_patch=m.group(7).strip(), existing_package_tests_failing_with_patch=m.group(8).strip())
rows = []
for d in sorted(glob.glob('/verif/seeded/C*/*')):
    pid, name = d.split('/')[-2], d.split('/')[-1]
    desc = ''
    p = os.path.join(d, 'description.txt')
    if os.path.exists(p):
        desc = open(p).read().strip()
    elif os.path.exists(os.path.join(d, 'meta.json')):
        desc = json.load(open(os.path.join(d, 'meta.json'))).get('description_by_author', '')
    first = desc.split('\n')[0]
    if first.startswith('Clause broken'):
        for l in desc.split('\n'):
            if l.startswith('Change:'):
                first = l[len('Change:'):].strip()
                break
    first = re.sub(r'^C\d\d m\d\s*[-–:]\s*', '', first)[:230]
    rc, classes = ev.get((pid, name), (None, ''))
    if rc is None and os.path.exists(os.path.join(d, 'meta.json')):
        # not part of this evaluation log: keep the result recorded by the previous evaluation
        oldcr = json.load(open(os.path.join(d, 'meta.json'))).get('check_result', {})
        if isinstance(oldcr, dict) and oldcr.get('exit') is not None:
            rc, classes = oldcr.get('exit'), oldcr.get('classes', '') + ' (evaluation before the last)'
    if name.startswith('w'):
        meta = dict(property=pid, mutant=name, author='independent sub-agent given only the property text and a scratch worktree',
                    description_by_author=desc, demonstration='demo_test.go.txt (copy into the package directory named at its top as *_test.go)',
                    confirmed_by_me=conf.get((pid, name), {}),
                    check_result=dict(command='VERIF_REPO=<scratch worktree with patch> ./bin/verifctl check %s --tier quick' % pid, exit=rc, classes=classes))
        old = {}
        mp = os.path.join(d, 'meta.json')
        if os.path.exists(mp):
            old = json.load(open(mp))
        for k in ('first_missed_then', 'note'):
            if k in old:
                meta[k] = old[k]
        json.dump(meta, open(mp, 'w'), indent=1)
    rows.append((pid, name, first, rc, classes))
for pid, name, first, rc, classes in rows:
    verdict = classes if rc == 1 else ('NOT CAUGHT' if rc == 0 else 'not evaluated')
    print('| %s %s | %s | %s |' % (pid, name, first.replace('|', '/'), verdict))
