#!/bin/bash
# usage: confirm_mutant.sh <ID> <mN>   (uses scratch worktree $W, default /tmp/confrepo)
# Confirms: demo passes on clean tree, fails with mutant, package builds, package tests with mutant fail only known-flaky tests.
export GOFLAGS=-mod=mod GOPROXY=off GOSUMDB=off
ID=$1; M=$2; W=${W:-/tmp/confrepo}; D=${MUTDIR:-/tmp/mutants}-$ID
cd $W || exit 2
git checkout -q -- . ; git clean -fdq
demo=$D/${M}_demo_test.go
pkgdir=$(cat $demo $D/$M.txt | grep -o " \./[a-z/]*/" | head -1 | sed 's#^ \./##; s#/$##')
run=$(grep -o "\-run '\?\^\?[A-Za-z0-9_]*" $demo $D/$M.txt | head -1 | sed "s/.*-run '\?\^\?//")
[ -z "$pkgdir" ] && { echo "$ID $M: cannot find package dir"; exit 0; }
[ -z "$run" ] && run=$(grep -o "^func Test[A-Za-z0-9_]*" $demo | head -1 | sed 's/func //')
cp $demo $pkgdir/zz_${M}_demo_test.go
clean=$(timeout 300 go test -vet=off -count=1 -run "^$run" ./$pkgdir/ 2>&1 | tail -1)
git apply $D/$M.diff || { echo "$ID $M: diff does not apply"; exit 0; }
build=$(go build ./... 2>&1 | tail -1)
mut=$(timeout 300 go test -vet=off -count=1 -run "^$run" ./$pkgdir/ 2>&1 | tail -1)
rm -f $pkgdir/zz_${M}_demo_test.go
pkgt=$(timeout 600 go test -vet=off -count=1 ./$pkgdir/ 2>&1 | grep "^--- FAIL" | tr '\n' ' ')
git checkout -q -- . ; git clean -fdq
echo "$ID $M: pkg=$pkgdir run=$run | clean: $clean | mutant: $mut | build: ${build:-ok} | pkg test fails with mutant: ${pkgt:-none}"
