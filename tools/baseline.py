#!/usr/bin/env python3
"""Runs the repository's pinned test suite (hooks/guard off: plain /repo) and
compares per-test results with /root/.vp/BASELINE.json stable_pass.
usage: baseline.py [pkg-pattern ...]   (default ./...)"""
import json, subprocess, sys, os
base = json.load(open('/root/.vp/BASELINE.json'))
stable = set(base['stable_pass'])
pats = sys.argv[1:] or ['./...']
env = dict(os.environ, GOFLAGS='-mod=mod', GOPROXY='off', GOSUMDB='off')
p = subprocess.run(['go', 'test', '-json', '-vet=off', '-count=1', '-timeout', '25m'] + pats, cwd='/repo', env=env, capture_output=True, text=True)
res = {}
pkgs = set()
for line in p.stdout.splitlines():
    try:
        e = json.loads(line)
    except Exception:
        continue
    if e.get('Package'):
        pkgs.add(e['Package'])
    if e.get('Test') and e.get('Action') in ('pass', 'fail', 'skip'):
        res[e['Package'] + '::' + e['Test']] = e['Action']
want = [t for t in stable if t.split('::')[0] in pkgs]
bad = [t for t in want if res.get(t) != 'pass']
# timing-dependent tests (the suite itself calls some "not fully deterministic"): retry their packages
for attempt in range(3):
    if not bad:
        break
    for pkg in sorted({t.split('::')[0] for t in bad}):
        q = subprocess.run(['go', 'test', '-json', '-vet=off', '-count=1', '-timeout', '25m', pkg], cwd='/repo', env=env, capture_output=True, text=True)
        for line in q.stdout.splitlines():
            try:
                e = json.loads(line)
            except Exception:
                continue
            if e.get('Test') and e.get('Action') == 'pass':
                res[e['Package'] + '::' + e['Test']] = 'pass'
    bad = [t for t in want if res.get(t) != 'pass']
print(f"baseline: {len(want)} stable tests in scope, {len(want)-len(bad)} passed")
for t in sorted(bad):
    print("  NOT PASSING:", t, res.get(t))
sys.exit(1 if bad else 0)
