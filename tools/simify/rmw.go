package main

import (
	"go/ast"
	"go/token"
	"go/types"

	"golang.org/x/tools/go/ast/astutil"
)

// R10: a read-modify-write of a shared variable in one statement (x.f = append(x.f, v), x.n++, x.n += d) is
// not atomic in a real execution; in the simulation a statement without a yield point is. The statement is split
// into read, yield, write, so that the scheduler can place another goroutine between the two halves. Under a lock
// that excludes the other party nothing changes (it cannot run); under a missing, shared or wrong lock the lost update
// becomes reachable.

// sharedLHS reports whether e is a field selection through a pointer or a package-level variable, written without calls.
func (r *rewriter) sharedLHS(e ast.Expr) bool {
	if !simpleExpr(e) {
		return false
	}
	switch x := unparen(e).(type) {
	case *ast.Ident:
		o := r.pkg.TypesInfo.ObjectOf(x)
		v, ok := o.(*types.Var)
		return ok && v.Pkg() != nil && v.Parent() == v.Pkg().Scope()
	case *ast.SelectorExpr:
		// the root must be a pointer, a package-level variable, or something reached through one
		root := x.X
		for {
			switch y := unparen(root).(type) {
			case *ast.SelectorExpr:
				if t := r.typeOf(y); t != nil {
					if _, isPtr := t.Underlying().(*types.Pointer); isPtr {
						return r.isFieldSel(x)
					}
				}
				root = y.X
				continue
			case *ast.StarExpr:
				return r.isFieldSel(x)
			case *ast.Ident:
				o := r.pkg.TypesInfo.ObjectOf(y)
				if _, isPkg := o.(*types.PkgName); isPkg {
					return false // other package's variable: leave alone
				}
				if v, ok := o.(*types.Var); ok {
					if _, isPtr := v.Type().Underlying().(*types.Pointer); isPtr {
						return r.isFieldSel(x)
					}
					if v.Pkg() != nil && v.Parent() == v.Pkg().Scope() {
						return r.isFieldSel(x)
					}
				}
				return false
			default:
				return false
			}
		}
	}
	return false
}

func (r *rewriter) isFieldSel(x *ast.SelectorExpr) bool {
	sel := r.pkg.TypesInfo.Selections[x]
	return sel != nil && sel.Kind() == types.FieldVal
}

func sameExpr(a, b ast.Expr) bool {
	return types.ExprString(unparen(a)) == types.ExprString(unparen(b))
}

// substitute replaces every occurrence of target in e by repl and reports how many were replaced.
func substitute(e ast.Expr, target ast.Expr, repl *ast.Ident) (ast.Expr, int) {
	n := 0
	out := astutil.Apply(e, func(c *astutil.Cursor) bool {
		if x, ok := c.Node().(ast.Expr); ok && sameExpr(x, target) {
			if _, isLit := c.Node().(*ast.FuncLit); !isLit {
				c.Replace(repl)
				n++
				return false
			}
		}
		if _, isLit := c.Node().(*ast.FuncLit); isLit {
			return false
		}
		return true
	}, nil)
	return out.(ast.Expr), n
}

var opOf = map[token.Token]token.Token{
	token.ADD_ASSIGN: token.ADD, token.SUB_ASSIGN: token.SUB, token.MUL_ASSIGN: token.MUL, token.QUO_ASSIGN: token.QUO,
	token.REM_ASSIGN: token.REM, token.AND_ASSIGN: token.AND, token.OR_ASSIGN: token.OR, token.XOR_ASSIGN: token.XOR,
	token.SHL_ASSIGN: token.SHL, token.SHR_ASSIGN: token.SHR, token.AND_NOT_ASSIGN: token.AND_NOT,
}

// rewriteRMW is called in post order for assignment and inc/dec statements that sit in a statement list.
func (r *rewriter) rewriteRMW(c *astutil.Cursor) {
	if c.Index() < 0 {
		return
	}
	var lhs ast.Expr
	var newRHS func(t *ast.Ident) ast.Expr
	switch n := c.Node().(type) {
	case *ast.IncDecStmt:
		lhs = n.X
		op := token.ADD
		if n.Tok == token.DEC {
			op = token.SUB
		}
		newRHS = func(t *ast.Ident) ast.Expr {
			return &ast.BinaryExpr{X: t, Op: op, Y: &ast.BasicLit{Kind: token.INT, Value: "1"}}
		}
	case *ast.AssignStmt:
		if len(n.Lhs) != 1 || len(n.Rhs) != 1 {
			return
		}
		lhs = n.Lhs[0]
		if op, ok := opOf[n.Tok]; ok {
			rhs := n.Rhs[0]
			newRHS = func(t *ast.Ident) ast.Expr {
				return &ast.BinaryExpr{X: t, Op: op, Y: &ast.ParenExpr{X: rhs}}
			}
		} else if n.Tok == token.ASSIGN {
			rhs := n.Rhs[0]
			// only the plain forms: append(lhs, ...) and lhs <op> e
			ok := false
			switch x := unparen(rhs).(type) {
			case *ast.CallExpr:
				if id, isID := x.Fun.(*ast.Ident); isID && id.Name == "append" && len(x.Args) >= 1 && sameExpr(x.Args[0], lhs) {
					if _, isB := r.pkg.TypesInfo.Uses[id].(*types.Builtin); isB {
						ok = true
					}
				}
			case *ast.BinaryExpr:
				ok = sameExpr(x.X, lhs) || sameExpr(x.Y, lhs)
			}
			if !ok {
				return
			}
			newRHS = func(t *ast.Ident) ast.Expr {
				e, k := substitute(rhs, lhs, t)
				if k == 0 {
					return nil
				}
				return e
			}
		} else {
			return
		}
	default:
		return
	}
	if !r.sharedLHS(lhs) {
		return
	}
	if tv, ok := r.pkg.TypesInfo.Types[lhs]; ok && tv.Type != nil {
		if _, isMap := tv.Type.Underlying().(*types.Map); isMap {
			return
		}
	}
	t := r.tmp("rmw")
	rhs := newRHS(t)
	if rhs == nil {
		return
	}
	st.RMW++
	c.Replace(&ast.BlockStmt{List: []ast.Stmt{
		&ast.AssignStmt{Lhs: []ast.Expr{t}, Tok: token.DEFINE, Rhs: []ast.Expr{lhs}},
		&ast.ExprStmt{X: r.rtCall("Yield", r.site(c.Node(), "rmw"))},
		&ast.AssignStmt{Lhs: []ast.Expr{lhs}, Tok: token.ASSIGN, Rhs: []ast.Expr{rhs}},
	}})
}
