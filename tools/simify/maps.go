package main

import (
	"fmt"
	"go/ast"
	"go/token"
	"go/types"
)

// collectMapAccesses finds the map reads and writes of the file and plans a race-tracker call in front of the
// statement each one belongs to. Only accesses that are certain to be evaluated when that statement starts, on a
// map expression that can be evaluated there without side effects, are taken; the others are counted and left alone
// (a missed access can hide a race, a misplaced one could invent one).
func (r *rewriter) collectMapAccesses() {
	info := r.pkg.TypesInfo
	var stack []ast.Node
	objMode := false
	isMap := func(e ast.Expr) bool {
		tv, ok := info.Types[e]
		if !ok || tv.Type == nil {
			return false
		}
		_, ok = tv.Type.Underlying().(*types.Map)
		return ok
	}
	add := func(m ast.Expr, write bool, at ast.Node) {
		// anchor: the innermost enclosing statement that sits in a statement list; nothing on the way from it to the
		// access may delay or skip the evaluation
		var anchor ast.Stmt
		for i := len(stack) - 1; i >= 0; i-- {
			n := stack[i]
			var child ast.Node = at
			if i+1 < len(stack) {
				child = stack[i+1]
			}
			switch x := n.(type) {
			case *ast.FuncLit, *ast.DeferStmt, *ast.GoStmt, *ast.ForStmt, *ast.CommClause, *ast.SelectStmt:
				_ = x
				st.MapChecksSkipped++
				return
			case *ast.CaseClause:
				// expressions of a case list are evaluated only if the earlier cases did not match
				for _, e := range x.List {
					if e == child {
						st.MapChecksSkipped++
						return
					}
				}
			case *ast.BinaryExpr:
				if (x.Op == token.LAND || x.Op == token.LOR) && x.Y == child {
					st.MapChecksSkipped++
					return
				}
			case *ast.IfStmt:
				if x.Else == child {
					st.MapChecksSkipped++
					return
				}
			case *ast.RangeStmt:
				if x.X != child {
					// key/value targets are assigned on every iteration
					if x.Key == child || x.Value == child {
						st.MapChecksSkipped++
						return
					}
				}
			}
			if s, ok := n.(ast.Stmt); ok && i > 0 {
				switch p := stack[i-1].(type) {
				case *ast.BlockStmt:
					anchor = s
				case *ast.CaseClause:
					for _, b := range p.Body {
						if b == s {
							anchor = s
						}
					}
				case *ast.CommClause:
					for _, b := range p.Body {
						if b == s {
							anchor = s
						}
					}
				}
				if anchor != nil {
					break
				}
			}
		}
		if anchor == nil || !simpleExpr(m) {
			st.MapChecksSkipped++
			return
		}
		// every identifier of the map expression must exist before the statement
		ok := true
		ast.Inspect(m, func(n ast.Node) bool {
			if id, isID := n.(*ast.Ident); isID {
				if o := info.Uses[id]; o != nil && o.Pos() >= anchor.Pos() && o.Pos() < anchor.End() {
					ok = false
				}
			}
			return true
		})
		if !ok {
			st.MapChecksSkipped++
			return
		}
		fn := "MapR"
		if write {
			fn = "MapW"
		}
		if objMode {
			fn = "ObjR"
			if write {
				fn = "ObjW"
			}
		}
		pos := r.fset.Position(at.Pos())
		lit := &ast.BasicLit{Kind: token.STRING, Value: fmt.Sprintf("%q", fmt.Sprintf("%s:%d", r.rel, pos.Line))}
		r.mapChecks[anchor] = append(r.mapChecks[anchor], &ast.ExprStmt{X: r.rtCall(fn, m, lit)})
	}
	addObj := func(obj ast.Expr, write bool, at ast.Node) {
		objMode = true
		add(obj, write, at)
		objMode = false
	}
	writes := map[ast.Expr]bool{}
	ast.Inspect(r.file, func(n ast.Node) bool {
		if n == nil {
			stack = stack[:len(stack)-1]
			return true
		}
		switch x := n.(type) {
		case *ast.AssignStmt:
			for _, l := range x.Lhs {
				if ix, ok := unparen(l).(*ast.IndexExpr); ok {
					writes[ix] = true
				}
			}
		case *ast.IncDecStmt:
			if ix, ok := unparen(x.X).(*ast.IndexExpr); ok {
				writes[ix] = true
			}
		case *ast.IndexExpr:
			if isMap(x.X) {
				add(x.X, writes[x], x)
			}
		case *ast.CallExpr:
			if id, ok := x.Fun.(*ast.Ident); ok && (id.Name == "delete" || id.Name == "clear") && len(x.Args) >= 1 {
				if _, isB := info.Uses[id].(*types.Builtin); isB && isMap(x.Args[0]) {
					add(x.Args[0], true, x)
				}
			}
			// container/list: a linked list mutated by two goroutines at once is corrupted just like a map
			if f, sel := r.methodOf(x); f != nil && sel != nil {
				if w, ok := listMethods[f.FullName()]; ok {
					addObj(sel.X, w, x)
				}
			}
		}
		stack = append(stack, n)
		return true
	})
}

// listMethods: methods of *container/list.List and whether they modify the list.
var listMethods = map[string]bool{
	"(*container/list.List).PushBack": true, "(*container/list.List).PushFront": true, "(*container/list.List).Remove": true,
	"(*container/list.List).MoveBefore": true, "(*container/list.List).MoveAfter": true, "(*container/list.List).MoveToFront": true,
	"(*container/list.List).MoveToBack": true, "(*container/list.List).InsertBefore": true, "(*container/list.List).InsertAfter": true,
	"(*container/list.List).Init": true, "(*container/list.List).PushBackList": true, "(*container/list.List).PushFrontList": true,
	"(*container/list.List).Front": false, "(*container/list.List).Back": false, "(*container/list.List).Len": false,
}
