package main

import (
	"bytes"
	"fmt"
	"go/ast"
	"go/printer"
	"go/token"
	"go/types"
	"sort"
	"strings"

	"golang.org/x/tools/go/ast/astutil"
)

// methodOf returns the *types.Func a selector call resolves to.
func (r *rewriter) methodOf(call *ast.CallExpr) (*types.Func, *ast.SelectorExpr) {
	sel, ok := call.Fun.(*ast.SelectorExpr)
	if !ok {
		return nil, nil
	}
	if s, ok := r.pkg.TypesInfo.Selections[sel]; ok {
		if f, ok := s.Obj().(*types.Func); ok {
			return f, sel
		}
		return nil, nil
	}
	if f, ok := r.pkg.TypesInfo.Uses[sel.Sel].(*types.Func); ok {
		return f, sel
	}
	return nil, nil
}

// recvPtr returns an expression for a pointer to (or interface value of) the
// receiver of a method call x.M().
func (r *rewriter) recvPtr(sel *ast.SelectorExpr) ast.Expr {
	t := r.typeOf(sel.X)
	if t == nil {
		return nil
	}
	switch t.Underlying().(type) {
	case *types.Pointer, *types.Interface:
		return sel.X
	}
	if _, ok := t.(*types.Pointer); ok {
		return sel.X
	}
	return &ast.UnaryExpr{Op: token.AND, X: sel.X}
}

// wgPtr returns a *sync.WaitGroup expression for the receiver of x.Add().
func (r *rewriter) wgPtr(sel *ast.SelectorExpr) ast.Expr {
	t := r.typeOf(sel.X)
	if t == nil {
		return nil
	}
	isWG := func(t types.Type) bool {
		n, ok := t.(*types.Named)
		return ok && n.Obj().Pkg() != nil && n.Obj().Pkg().Path() == "sync" && n.Obj().Name() == "WaitGroup"
	}
	if p, ok := t.(*types.Pointer); ok && isWG(p.Elem()) {
		return sel.X
	}
	if isWG(t) {
		return &ast.UnaryExpr{Op: token.AND, X: sel.X}
	}
	return nil // embedded WaitGroup: not handled
}

func basicTypeName(t types.Type) string {
	switch u := t.(type) {
	case *types.Basic:
		if u.Kind() == types.UntypedBool {
			return "bool"
		}
		if u.Info()&types.IsUntyped != 0 {
			return ""
		}
		return u.Name()
	case *types.Interface:
		if u.Empty() {
			return "interface{}"
		}
	}
	return ""
}

func (r *rewriter) rewriteCall(c *astutil.Cursor, call *ast.CallExpr) {
	// builtin close
	if id, ok := call.Fun.(*ast.Ident); ok && id.Name == "close" {
		if _, isB := r.pkg.TypesInfo.Uses[id].(*types.Builtin); isB {
			if r.noWrap[call] {
				return
			}
			st.Close++
			if es, ok := c.Parent().(*ast.ExprStmt); ok && es.X == call && r.hb && len(call.Args) == 1 {
				// func() { c := ch; Yield; ChanRel(c, true); close(c) }()
				chv := r.tmp("c")
				lit := &ast.FuncLit{Type: &ast.FuncType{Params: &ast.FieldList{}}, Body: &ast.BlockStmt{List: []ast.Stmt{
					&ast.AssignStmt{Lhs: []ast.Expr{chv}, Tok: token.DEFINE, Rhs: []ast.Expr{call.Args[0]}},
					&ast.ExprStmt{X: r.rtCall("Yield", r.site(call, "close"))},
					&ast.ExprStmt{X: r.rtCall("ChanRel", chv, ast.NewIdent("true"))},
					&ast.ExprStmt{X: &ast.CallExpr{Fun: ast.NewIdent("close"), Args: []ast.Expr{chv}}},
				}}}
				c.Replace(&ast.CallExpr{Fun: lit})
				return
			}
			r.wrapYield(c, call, "close", nil)
			return
		}
	}
	f, sel := r.methodOf(call)
	if f == nil {
		return
	}
	full := f.FullName()
	pkgPath := ""
	if f.Pkg() != nil {
		pkgPath = f.Pkg().Path()
	}
	sig, _ := f.Type().(*types.Signature)
	switch {
	case full == "time.Sleep":
		if r.noWrap[call] {
			return
		}
		st.Sleep++
		c.Replace(r.rtCall("Sleep", r.site(call, "sleep"), call.Args[0]))
		return
	case full == "(*sync.Mutex).Lock" || full == "(*sync.RWMutex).Lock" ||
		full == "(*sync.Mutex).Unlock" || full == "(*sync.RWMutex).Unlock" ||
		full == "(*sync.RWMutex).RLock" || full == "(*sync.RWMutex).RUnlock":
		if p := r.recvPtr(sel); p != nil {
			st.Lock++
			c.Replace(r.rtCall(f.Name(), r.site(call, strings.ToLower(f.Name())), p))
		}
		return
	case full == "(*sync.WaitGroup).Add" || full == "(*sync.WaitGroup).Done" || full == "(*sync.WaitGroup).Wait":
		if p := r.wgPtr(sel); p != nil {
			st.WaitGroup++
			args := append([]ast.Expr{r.site(call, "wg"+strings.ToLower(f.Name())), p}, call.Args...)
			c.Replace(r.rtCall("Wg"+f.Name(), args...))
		}
		return
	}
	if r.hb && !r.isExtPkg {
		// synchronisation the happens-before tracking has no model for: the race verdicts of this build are switched
		// off rather than risk an edge that is missing
		unhandled := false
		switch {
		case pkgPath == "sync" && sig != nil && sig.Recv() != nil:
			rt := sig.Recv().Type().String()
			switch {
			case strings.Contains(rt, "sync.Mutex"), strings.Contains(rt, "sync.RWMutex"), strings.Contains(rt, "sync.WaitGroup"), strings.Contains(rt, "sync.Once"):
			default:
				unhandled = true
			}
		case pkgPath == "sync" && (f.Name() == "OnceFunc" || f.Name() == "OnceValue" || f.Name() == "OnceValues" || f.Name() == "NewCond"):
			unhandled = true
		case strings.HasPrefix(pkgPath, "golang.org/x/sync/"):
			unhandled = true
		case full == "time.AfterFunc":
			unhandled = true
		}
		if unhandled {
			st.HBUnhandled = append(st.HBUnhandled, fmt.Sprintf("%s:%d %s", r.rel, r.fset.Position(call.Pos()).Line, full))
		}
	}
	if r.hb && full == "(*sync.Once).Do" && !r.noWrap[call] {
		if p := r.recvPtr(sel); p != nil {
			c.Replace(r.rtCall("OnceDo", r.site(call, "once"), p, call.Args[0]))
			return
		}
	}
	if r.hb && f.Name() == "Err" && sig != nil && sig.Recv() != nil && sig.Params().Len() == 0 && !r.noWrap[call] {
		if t := r.typeOf(sel.X); t != nil && t.String() == "context.Context" {
			// cancel() happens before an Err() that reports it: a synchronisation the simulator does not see
			r.wrapYield(c, call, "ctxerr", sig)
			return
		}
	}
	// Lock/Unlock through an interface (record.Record)
	if sig != nil && sig.Recv() != nil && sig.Params().Len() == 0 && sig.Results().Len() == 0 {
		switch f.Name() {
		case "Lock", "Unlock":
			if it, ok := r.typeOf(sel.X).Underlying().(*types.Interface); ok && hasMethods(it, "Lock", "Unlock") {
				st.Lock++
				c.Replace(r.rtCall(f.Name(), r.site(call, strings.ToLower(f.Name())+"-iface"), sel.X))
				return
			}
		}
	}
	// atomics
	isAtomic := false
	switch {
	case pkgPath == "sync/atomic":
		isAtomic = true
	case pkgPath == "github.com/tevino/abool" && sig != nil && sig.Recv() != nil:
		switch f.Name() {
		case "Set", "UnSet", "IsSet", "IsNotSet", "SetTo", "SetToIf", "Toggle":
			isAtomic = true
		}
	}
	if isAtomic {
		if r.noWrap[call] {
			st.AtomicUnwrapped++
			return
		}
		r.wrapYield(c, call, "atomic", sig)
	}
}

// atomicAddr returns an expression for the address of the variable an atomic call operates on, or nil.
func (r *rewriter) atomicAddr(call *ast.CallExpr, sig *types.Signature) ast.Expr {
	if sig == nil {
		return nil
	}
	if sig.Recv() == nil {
		if len(call.Args) == 0 {
			return nil
		}
		return cloneSimple(call.Args[0])
	}
	sel, ok := call.Fun.(*ast.SelectorExpr)
	if !ok {
		return nil
	}
	x := cloneSimple(sel.X)
	if x == nil {
		return nil
	}
	t := r.typeOf(sel.X)
	if t == nil {
		return nil
	}
	if _, isPtr := t.Underlying().(*types.Pointer); isPtr {
		return x
	}
	if _, isSel := sel.X.(*ast.SelectorExpr); !isSel {
		if _, isID := sel.X.(*ast.Ident); !isID {
			return nil
		}
	}
	return &ast.UnaryExpr{Op: token.AND, X: x}
}

// cloneSimple copies an expression made of identifiers, field selections, dereferences, address-of, parentheses and
// conversions to named or pointer types; nil for anything else (calls, index expressions, literals).
func cloneSimple(e ast.Expr) ast.Expr {
	switch x := e.(type) {
	case *ast.Ident:
		return ast.NewIdent(x.Name)
	case *ast.SelectorExpr:
		if in := cloneSimple(x.X); in != nil {
			return &ast.SelectorExpr{X: in, Sel: ast.NewIdent(x.Sel.Name)}
		}
	case *ast.StarExpr:
		if in := cloneSimple(x.X); in != nil {
			return &ast.StarExpr{X: in}
		}
	case *ast.ParenExpr:
		if in := cloneSimple(x.X); in != nil {
			return &ast.ParenExpr{X: in}
		}
	case *ast.UnaryExpr:
		if x.Op == token.AND {
			if in := cloneSimple(x.X); in != nil {
				return &ast.UnaryExpr{Op: token.AND, X: in}
			}
		}
	}
	return nil
}

func hasMethods(it *types.Interface, names ...string) bool {
	for _, n := range names {
		found := false
		for i := 0; i < it.NumMethods(); i++ {
			if it.Method(i).Name() == n {
				found = true
			}
		}
		if !found {
			return false
		}
	}
	return true
}

// wrapYield replaces call by func() T { Yield(site); return call }().
func (r *rewriter) wrapYield(c *astutil.Cursor, call *ast.CallExpr, kind string, sig *types.Signature) {
	yield := &ast.ExprStmt{X: r.rtCall("Yield", r.site(call, kind))}
	if kind == "atomic" {
		// the variable operated on, where it can be named without side effects: atomics synchronise per variable
		if addr := r.atomicAddr(call, sig); addr != nil {
			// a pure load acquires what earlier stores released and releases nothing itself
			load := "false"
			if sel, ok := call.Fun.(*ast.SelectorExpr); ok {
				switch n := sel.Sel.Name; {
				case strings.HasPrefix(n, "Load"), n == "IsSet", n == "IsNotSet":
					load = "true"
				}
			}
			yield = &ast.ExprStmt{X: r.rtCall("YieldAtomic", r.site(call, kind), addr, ast.NewIdent(load))}
			st.AtomicAddressed++
		}
	}
	// statement context: insert before
	if es, ok := c.Parent().(*ast.ExprStmt); ok && es.X == call {
		lit := &ast.FuncLit{Type: &ast.FuncType{Params: &ast.FieldList{}}, Body: &ast.BlockStmt{List: []ast.Stmt{yield, &ast.ExprStmt{X: call}}}}
		c.Replace(&ast.CallExpr{Fun: lit})
		if kind == "atomic" {
			st.Atomic++
		}
		return
	}
	res := ""
	if kind == "ctxerr" {
		res = "error"
	} else if sig != nil && sig.Results().Len() == 1 {
		res = basicTypeName(sig.Results().At(0).Type())
	}
	if tv, ok := r.pkg.TypesInfo.Types[call]; ok && res == "" && tv.Type != nil {
		res = basicTypeName(tv.Type)
	}
	if res == "" {
		st.AtomicUnwrapped++
		return
	}
	lit := &ast.FuncLit{
		Type: &ast.FuncType{Params: &ast.FieldList{}, Results: &ast.FieldList{List: []*ast.Field{{Type: ast.NewIdent(res)}}}},
		Body: &ast.BlockStmt{List: []ast.Stmt{yield, &ast.ReturnStmt{Results: []ast.Expr{call}}}},
	}
	c.Replace(&ast.CallExpr{Fun: lit})
	if kind == "atomic" {
		st.Atomic++
	}
}

// ---- R8: disk seam -----------------------------------------------------------

var fsFuncs = map[string]map[string]bool{
	"os": {"Stat": true, "Lstat": true, "Open": true, "OpenFile": true, "Create": true, "CreateTemp": true, "MkdirTemp": true,
		"Mkdir": true, "MkdirAll": true, "Remove": true, "RemoveAll": true, "Rename": true, "ReadFile": true, "WriteFile": true,
		"Symlink": true, "Readlink": true, "ReadDir": true, "Chmod": true, "TempDir": true, "File": true},
	"path/filepath": {"Walk": true, "WalkDir": true, "Abs": true, "EvalSymlinks": true},
	"io/ioutil":     {"ReadFile": true, "WriteFile": true},
	"archive/zip":   {"OpenReader": true},
}

func (r *rewriter) rewriteFSSelector(c *astutil.Cursor, sel *ast.SelectorExpr) {
	id, ok := sel.X.(*ast.Ident)
	if !ok {
		return
	}
	pn, ok := r.pkg.TypesInfo.Uses[id].(*types.PkgName)
	if !ok {
		return
	}
	m := fsFuncs[pn.Imported().Path()]
	if m == nil || !m[sel.Sel.Name] {
		return
	}
	name := sel.Sel.Name
	switch pn.Imported().Path() {
	case "io/ioutil":
		name = "Ioutil" + name
	case "archive/zip":
		name = "Zip" + name
	}
	st.FS++
	r.usedFS = true
	c.Replace(&ast.SelectorExpr{X: ast.NewIdent(fsName), Sel: ast.NewIdent(name)})
}

// ---- R9: reinit --------------------------------------------------------------

var pureCalls = map[string]bool{
	"github.com/tevino/abool.New": true, "github.com/tevino/abool.NewBool": true,
	"container/list.New": true, "sync.NewCond": true, "runtime.GOMAXPROCS": true, "runtime.NumCPU": true,
	"regexp.MustCompile": true, "time.Duration": true, "github.com/armon/go-radix.New": true,
	"strings.NewReplacer": true,
}

func (r *rewriter) pureExpr(e ast.Expr) bool {
	pure := true
	ast.Inspect(e, func(n ast.Node) bool {
		switch x := n.(type) {
		case *ast.FuncLit:
			pure = false
			return false
		case *ast.UnaryExpr:
			if x.Op == token.ARROW {
				pure = false
			}
		case *ast.CallExpr:
			if tv, ok := r.pkg.TypesInfo.Types[x.Fun]; ok && tv.IsType() {
				return true // conversion
			}
			switch fn := x.Fun.(type) {
			case *ast.Ident:
				if _, ok := r.pkg.TypesInfo.Uses[fn].(*types.Builtin); ok {
					return true
				}
			case *ast.SelectorExpr:
				if f, ok := r.pkg.TypesInfo.Uses[fn.Sel].(*types.Func); ok && pureCalls[f.FullName()] {
					return true
				}
			}
			pure = false
			return false
		}
		return true
	})
	return pure
}

// genReinit appends per-initialiser reinit functions to the current file and
// returns their names.
func (r *rewriter) genReinit(fileIdx int) []string {
	if r.reinitFn == nil {
		r.reinitFn = map[string]int{}
	}
	info := r.pkg.TypesInfo
	// variables touched by init() functions anywhere in the package
	touched := map[types.Object]bool{}
	for _, f := range r.pkg.Syntax {
		for _, d := range f.Decls {
			fd, ok := d.(*ast.FuncDecl)
			if !ok || fd.Recv != nil || fd.Name.Name != "init" || fd.Body == nil {
				continue
			}
			ast.Inspect(fd.Body, func(n ast.Node) bool {
				switch x := n.(type) {
				case *ast.AssignStmt:
					for _, l := range x.Lhs {
						if id, ok := l.(*ast.Ident); ok {
							if o := info.ObjectOf(id); o != nil {
								touched[o] = true
							}
						}
					}
				case *ast.UnaryExpr:
					if x.Op == token.AND {
						if id, ok := x.X.(*ast.Ident); ok {
							if o := info.ObjectOf(id); o != nil {
								touched[o] = true
							}
						}
					}
				}
				return true
			})
		}
	}
	initIdx := map[*types.Var]int{}
	for i, ini := range info.InitOrder {
		for _, v := range ini.Lhs {
			initIdx[v] = i
		}
	}
	var names []string
	var newDecls []ast.Decl
	n := 0
	for _, d := range r.file.Decls {
		gd, ok := d.(*ast.GenDecl)
		if !ok || gd.Tok != token.VAR {
			continue
		}
		for _, sp := range gd.Specs {
			vs := sp.(*ast.ValueSpec)
			skip := false
			var objs []*types.Var
			for _, nm := range vs.Names {
				if nm.Name == "_" {
					skip = true
					continue
				}
				o, _ := info.Defs[nm].(*types.Var)
				if o == nil {
					skip = true
					continue
				}
				objs = append(objs, o)
				if touched[o] {
					skip = true
				}
				if types.Identical(o.Type(), types.Universe.Lookup("error").Type()) {
					skip = true
				}
				if _, isSig := o.Type().Underlying().(*types.Signature); isSig && len(vs.Values) > 0 {
					skip = true
				}
			}
			if skip || len(objs) == 0 {
				for _, nm := range vs.Names {
					st.ReinitSkipped = append(st.ReinitSkipped, r.pkg.Name+"."+nm.Name)
				}
				continue
			}
			var body []ast.Stmt
			order := 0
			if len(vs.Values) == 0 {
				// zero value
				order = -1
				for _, nm := range vs.Names {
					body = append(body, &ast.AssignStmt{Lhs: []ast.Expr{ast.NewIdent(nm.Name)}, Tok: token.ASSIGN,
						Rhs: []ast.Expr{&ast.StarExpr{X: &ast.CallExpr{Fun: ast.NewIdent("new"), Args: []ast.Expr{vs.Type}}}}})
				}
			} else {
				allPure := true
				for _, v := range vs.Values {
					if !r.pureExpr(v) {
						allPure = false
					}
				}
				if !allPure {
					for _, nm := range vs.Names {
						st.ReinitSkipped = append(st.ReinitSkipped, r.pkg.Name+"."+nm.Name)
					}
					continue
				}
				var lhs []ast.Expr
				for _, nm := range vs.Names {
					lhs = append(lhs, ast.NewIdent(nm.Name))
				}
				if vs.Type != nil && len(vs.Values) == len(vs.Names) {
					// keep the declared type (e.g. interface typed vars)
					for i := range vs.Values {
						body = append(body, &ast.AssignStmt{Lhs: []ast.Expr{lhs[i]}, Tok: token.ASSIGN, Rhs: []ast.Expr{vs.Values[i]}})
					}
				} else {
					body = append(body, &ast.AssignStmt{Lhs: lhs, Tok: token.ASSIGN, Rhs: vs.Values})
				}
				order = initIdx[objs[0]]
			}
			name := fmt.Sprintf("verifSimReinit_%d_%d", fileIdx, n)
			n++
			r.reinitFn[name] = order
			names = append(names, name)
			st.ReinitVars += len(objs)
			newDecls = append(newDecls, &ast.FuncDecl{
				Name: ast.NewIdent(name),
				Type: &ast.FuncType{Params: &ast.FieldList{}},
				Body: &ast.BlockStmt{List: body},
			})
		}
	}
	// Deep-copy initialiser expressions by printing and keeping the nodes
	// shared is fine for go/printer; append the functions to the file.
	r.file.Decls = append(r.file.Decls, newDecls...)
	return names
}

func (r *rewriter) orderReinit(names []string) []string {
	sort.SliceStable(names, func(i, j int) bool { return r.reinitFn[names[i]] < r.reinitFn[names[j]] })
	return names
}

var _ = bytes.NewBuffer
var _ = printer.Fprint
