// simify instruments the current /repo working tree for deterministic
// simulation and writes a `go build -overlay` file. See DESIGN.md §2.2.
package main

import (
	"bytes"
	"encoding/json"
	"flag"
	"fmt"
	"go/ast"
	"go/printer"
	"go/token"
	"go/types"
	"os"
	"path/filepath"
	"sort"
	"strings"

	"golang.org/x/tools/go/ast/astutil"
	"golang.org/x/tools/go/packages"
)

const (
	modPath   = "github.com/safing/portbase"
	simrtPath = modPath + "/verifsim/simrt"
	simfsPath = modPath + "/verifsim/simfs"
	rtName    = "verifsimrt"
	fsName    = "verifsimfs"
)

type stats struct {
	Files             int            `json:"files"`
	Go                int            `json:"go_stmts"`
	GoSkipped         int            `json:"go_stmts_unrewritten"`
	Recv              int            `json:"recv"`
	Send              int            `json:"send"`
	RangeChan         int            `json:"range_chan"`
	Select            int            `json:"select_rewritten"`
	SelectSimple      int            `json:"select_single"`
	UncontrolledSel   int            `json:"uncontrolled_select"`
	RMW               int            `json:"read_modify_write_splits"`
	HBUnhandled       []string       `json:"hb_unhandled_sync"` // synchronisation calls the happens-before tracking has no model for (race verdicts off if any)
	MapChecks         int            `json:"map_access_checks"`
	MapChecksSkipped  int            `json:"map_accesses_not_checked"`
	MapRange          int            `json:"map_range_sorted"`
	UnsortedMap       int            `json:"unsorted_map"`
	Lock              int            `json:"lock_calls"`
	WaitGroup         int            `json:"waitgroup_calls"`
	Atomic            int            `json:"atomic_yields"`
	AtomicUnwrapped   int            `json:"atomic_unwrapped"`
	AtomicAddressed   int            `json:"atomic_yields_with_variable"`
	Close             int            `json:"close_yields"`
	Sleep             int            `json:"sleep"`
	FS                int            `json:"fs_redirects"`
	ReinitVars        int            `json:"reinit_vars"`
	ReinitSkipped     []string       `json:"reinit_skipped"`
	PerPackage        map[string]int `json:"sites_per_package"`
	UncontrolledSites []string       `json:"uncontrolled_sites"`
}

var st = stats{PerPackage: map[string]int{}}

func main() {
	repo := flag.String("repo", "/repo", "repository root")
	verif := flag.String("verif", "/verif", "verif root")
	out := flag.String("out", "", "scratch output directory")
	pkgsFlag := flag.String("pkgs", "", "comma separated repo-relative packages to instrument")
	fsPkgsFlag := flag.String("fspkgs", "", "comma separated repo-relative packages that additionally get the disk seam (R8)")
	harness := flag.String("harness", "", "harness name under sim/harness")
	extPkgs := flag.String("extpkgs", "", "comma separated third-party import paths to instrument (module cache)")
	mapPkgsFlag := flag.String("mappkgs", "", "comma separated repo-relative packages whose map accesses are reported to the race tracker")
	flag.Parse()
	if *out == "" || *harness == "" {
		fatal("need -out and -harness")
	}
	must(os.MkdirAll(*out, 0o755))

	rawOverlay := map[string]string{} // repo path -> source path (uninstrumented content)
	addDir := func(srcDir, dstDir string) {
		ents, err := os.ReadDir(srcDir)
		if err != nil {
			return
		}
		for _, e := range ents {
			if e.IsDir() || !strings.HasSuffix(e.Name(), ".go") {
				continue
			}
			rawOverlay[filepath.Join(dstDir, e.Name())] = filepath.Join(srcDir, e.Name())
		}
	}
	addDir(filepath.Join(*verif, "sim/simrt"), filepath.Join(*repo, "verifsim/simrt"))
	addDir(filepath.Join(*verif, "sim/simkit"), filepath.Join(*repo, "verifsim/simkit"))
	addDir(filepath.Join(*verif, "sim/simfs"), filepath.Join(*repo, "verifsim/simfs"))
	hdir := filepath.Join(*repo, "verifsim/harness", *harness)
	hsrc := filepath.Join(*verif, "sim/harness", *harness)
	_ = filepath.WalkDir(hsrc, func(path string, d os.DirEntry, err error) error {
		if err == nil && d.IsDir() {
			rel, _ := filepath.Rel(hsrc, path)
			addDir(path, filepath.Join(hdir, rel))
		}
		return nil
	})

	var pkgs []string
	for _, p := range strings.Split(*pkgsFlag, ",") {
		if p = strings.TrimSpace(p); p != "" {
			pkgs = append(pkgs, p)
		}
	}
	fsPkgs := map[string]bool{}
	for _, p := range strings.Split(*fsPkgsFlag, ",") {
		if p = strings.TrimSpace(p); p != "" {
			fsPkgs[modPath+"/"+p] = true
		}
	}
	mapPkgs := map[string]bool{}
	for _, p := range strings.Split(*mapPkgsFlag, ",") {
		if p = strings.TrimSpace(p); p != "" {
			mapPkgs[modPath+"/"+p] = true
		}
	}
	// shims
	for _, p := range pkgs {
		shim := filepath.Join(*verif, "sim/shims", strings.ReplaceAll(p, "/", "_")+".go")
		if _, err := os.Stat(shim); err == nil {
			rawOverlay[filepath.Join(*repo, p, "zz_verifsim_shim.go")] = shim
		}
	}

	// go.mod copy
	modfile := filepath.Join(*out, "go.mod")
	gm, err := os.ReadFile(filepath.Join(*repo, "go.mod"))
	must(err)
	gm = append(gm, []byte("\nrequire github.com/anishathalye/porcupine v1.3.0\n")...)
	must(os.WriteFile(modfile, gm, 0o644))
	gs, err := os.ReadFile(filepath.Join(*repo, "go.sum"))
	must(err)
	must(os.WriteFile(filepath.Join(*out, "go.sum"), gs, 0o644))

	ov := map[string][]byte{}
	for dst, src := range rawOverlay {
		b, err := os.ReadFile(src)
		must(err)
		ov[dst] = b
	}
	wantRace := len(mapPkgs) > 0
	// placeholder reinit files so that shims/harness can reference VerifSimReinit
	for _, p := range pkgs {
		name := filepath.Base(p)
		ov[filepath.Join(*repo, p, "zz_verifsim_reinit.go")] = []byte("package " + pkgNameGuess(filepath.Join(*repo, p), name) + "\n\nfunc VerifSimReinit() {}\n")
	}

	patterns := []string{}
	for _, p := range pkgs {
		patterns = append(patterns, modPath+"/"+p)
	}
	patterns = append(patterns, modPath+"/verifsim/harness/"+*harness+"/...")
	var ext []string
	for _, p := range strings.Split(*extPkgs, ",") {
		if p = strings.TrimSpace(p); p != "" {
			ext = append(ext, p)
			patterns = append(patterns, p)
		}
	}
	cfg := &packages.Config{
		Mode: packages.NeedName | packages.NeedFiles | packages.NeedCompiledGoFiles | packages.NeedSyntax |
			packages.NeedTypes | packages.NeedTypesInfo | packages.NeedImports | packages.NeedDeps | packages.NeedTypesSizes | packages.NeedModule,
		Dir:        *repo,
		Overlay:    ov,
		BuildFlags: []string{"-modfile=" + modfile},
		Env:        append(os.Environ(), "GOFLAGS=-mod=mod", "GOPROXY=off", "GOSUMDB=off"),
	}
	loaded, err := packages.Load(cfg, patterns...)
	must(err)
	bad := false
	for _, p := range loaded {
		for _, e := range p.Errors {
			fmt.Fprintf(os.Stderr, "simify: load error in %s: %v\n", p.PkgPath, e)
			bad = true
		}
	}
	if bad {
		os.Exit(2)
	}

	overlay := map[string]string{}
	for dst, src := range rawOverlay {
		overlay[dst] = src
	}
	srcOut := filepath.Join(*out, "src")
	for dst, content := range rawGenerated {
		outPath := filepath.Join(srcOut, strings.TrimPrefix(dst, "/"))
		must(os.MkdirAll(filepath.Dir(outPath), 0o755))
		must(os.WriteFile(outPath, []byte(content), 0o644))
		overlay[dst] = outPath
	}
	isExt := map[string]bool{}
	for _, e := range ext {
		isExt[e] = true
	}
	for _, p := range loaded {
		rw := &rewriter{pkg: p, fset: p.Fset, repo: *repo, fs: fsPkgs[p.PkgPath], maps: mapPkgs[p.PkgPath], hb: len(mapPkgs) > 0, rmw: !isExt[p.PkgPath] && !strings.Contains(p.PkgPath, "/verifsim/"), isExtPkg: isExt[p.PkgPath] || strings.Contains(p.PkgPath, "/verifsim/")}
		isHarness := strings.Contains(p.PkgPath, "/verifsim/harness/")
		var reinitCalls []string
		for i, f := range p.Syntax {
			fname := p.CompiledGoFiles[i]
			if strings.HasSuffix(fname, "zz_verifsim_reinit.go") {
				continue
			}
			rw.file = f
			rw.fname = fname
			rw.rel = relName(*repo, fname)
			rw.usedRT, rw.usedFS = false, false
			rw.rewriteFile()
			if !isHarness && !isExt[p.PkgPath] {
				reinitCalls = append(reinitCalls, rw.genReinit(i)...)
			}
			if rw.usedRT {
				astutil.AddNamedImport(p.Fset, f, rtName, simrtPath)
			}
			if rw.usedFS {
				astutil.AddNamedImport(p.Fset, f, fsName, simfsPath)
				for _, ip := range []string{"os", "path/filepath", "io/ioutil", "archive/zip"} {
					if !astutil.UsesImport(f, ip) {
						astutil.DeleteImport(p.Fset, f, ip)
					}
				}
			}
			f.Comments = nil
			var buf bytes.Buffer
			must((&printer.Config{Mode: printer.UseSpaces | printer.TabIndent, Tabwidth: 8}).Fprint(&buf, p.Fset, f))
			if isExt[p.PkgPath] {
				// third-party module: files beneath GOMODCACHE cannot be overlaid; work on a
				// copy of the module that replaces it in the scratch go.mod
				if p.Module == nil || p.Module.Dir == "" {
					fatal("no module information for " + p.PkgPath)
				}
				copyDir := filepath.Join(*out, "ext", strings.ReplaceAll(p.Module.Path, "/", "_"))
				if !extCopied[p.Module.Path] {
					extCopied[p.Module.Path] = true
					must(copyTree(p.Module.Dir, copyDir))
					// the inserted helpers use generics: make sure the copy's language version allows them
					gmPath := filepath.Join(copyDir, "go.mod")
					gmb, err := os.ReadFile(gmPath)
					if err != nil {
						gmb = []byte("module " + p.Module.Path + "\n")
					}
					var lines []string
					for _, l := range strings.Split(string(gmb), "\n") {
						if strings.HasPrefix(l, "go ") || strings.HasPrefix(l, "toolchain ") {
							continue
						}
						lines = append(lines, l)
					}
					lines = append(lines, "go 1.21")
					must(os.WriteFile(gmPath, []byte(strings.Join(lines, "\n")+"\n"), 0o644))
					extReplace = append(extReplace, fmt.Sprintf("replace %s => %s\n", p.Module.Path, copyDir))
				}
				rel, err := filepath.Rel(p.Module.Dir, fname)
				must(err)
				must(os.WriteFile(filepath.Join(copyDir, rel), buf.Bytes(), 0o644))
				st.Files++
				continue
			}
			// the key in the overlay must be the path the go command sees
			dstKey := fname
			outPath := filepath.Join(srcOut, strings.ReplaceAll(strings.TrimPrefix(fname, "/"), "@", "_at_"))
			must(os.MkdirAll(filepath.Dir(outPath), 0o755))
			must(os.WriteFile(outPath, buf.Bytes(), 0o644))
			overlay[dstKey] = outPath
			st.Files++
		}
		if !isHarness && !isExt[p.PkgPath] {
			// master reinit in InitOrder
			ordered := rw.orderReinit(reinitCalls)
			var buf bytes.Buffer
			fmt.Fprintf(&buf, "package %s\n\n// VerifSimReinit re-evaluates package-level initialisers (generated).\nfunc VerifSimReinit() {\n", p.Name)
			for _, c := range ordered {
				fmt.Fprintf(&buf, "\t%s()\n", c)
			}
			fmt.Fprintf(&buf, "}\n")
			dir := filepath.Dir(p.CompiledGoFiles[0])
			outPath := filepath.Join(srcOut, strings.TrimPrefix(dir, "/"), "zz_verifsim_reinit.go")
			must(os.MkdirAll(filepath.Dir(outPath), 0o755))
			must(os.WriteFile(outPath, buf.Bytes(), 0o644))
			overlay[filepath.Join(dir, "zz_verifsim_reinit.go")] = outPath
		}
	}
	if wantRace && len(st.HBUnhandled) == 0 {
		dst := filepath.Join(*repo, "verifsim/simrt/zz_race_build.go")
		outPath := filepath.Join(srcOut, strings.TrimPrefix(dst, "/"))
		must(os.MkdirAll(filepath.Dir(outPath), 0o755))
		must(os.WriteFile(outPath, []byte("package simrt\n\nfunc init() { RaceBuild = true }\n"), 0o644))
		overlay[dst] = outPath
	}
	if len(extReplace) > 0 {
		f, err := os.OpenFile(modfile, os.O_APPEND|os.O_WRONLY, 0o644)
		must(err)
		for _, l := range extReplace {
			_, _ = f.WriteString(l)
		}
		must(f.Close())
	}
	sort.Strings(st.ReinitSkipped)
	sort.Strings(st.UncontrolledSites)
	ovj, _ := json.MarshalIndent(map[string]any{"Replace": overlay}, "", " ")
	must(os.WriteFile(filepath.Join(*out, "overlay.json"), ovj, 0o644))
	sj, _ := json.MarshalIndent(st, "", " ")
	must(os.WriteFile(filepath.Join(*out, "simify-stats.json"), sj, 0o644))
}

var rawGenerated = map[string]string{}
var extCopied = map[string]bool{}
var extReplace []string

func copyTree(src, dst string) error {
	return filepath.WalkDir(src, func(path string, d os.DirEntry, err error) error {
		if err != nil {
			return err
		}
		rel, _ := filepath.Rel(src, path)
		target := filepath.Join(dst, rel)
		if d.IsDir() {
			return os.MkdirAll(target, 0o755)
		}
		b, err := os.ReadFile(path)
		if err != nil {
			return err
		}
		return os.WriteFile(target, b, 0o644)
	})
}

func pkgNameGuess(dir, def string) string {
	ents, _ := os.ReadDir(dir)
	for _, e := range ents {
		if strings.HasSuffix(e.Name(), ".go") && !strings.HasSuffix(e.Name(), "_test.go") {
			b, err := os.ReadFile(filepath.Join(dir, e.Name()))
			if err != nil {
				continue
			}
			for _, l := range strings.Split(string(b), "\n") {
				if strings.HasPrefix(l, "package ") {
					return strings.Fields(l)[1]
				}
			}
		}
	}
	return def
}

func relName(repo, fname string) string {
	if r, err := filepath.Rel(repo, fname); err == nil && !strings.HasPrefix(r, "..") {
		return r
	}
	if i := strings.Index(fname, "/pkg/mod/"); i >= 0 {
		return fname[i+9:]
	}
	return fname
}

func must(err error) {
	if err != nil {
		fatal(err.Error())
	}
}

func fatal(s string) {
	fmt.Fprintln(os.Stderr, "simify:", s)
	os.Exit(2)
}

// ---------------------------------------------------------------------------

type rewriter struct {
	pkg      *packages.Package
	fset     *token.FileSet
	repo     string
	file     *ast.File
	fname    string
	rel      string
	fs       bool
	maps     bool // report map accesses of this package to the race tracker
	hb       bool // add the happens-before calls around channel operations
	rmw      bool // split read-modify-write statements on shared variables (R10)
	isExtPkg bool
	usedRT   bool
	usedFS   bool
	tmpN     int

	skip          map[ast.Node]bool // comm statements of selects (handled by the select rewrite)
	twoValue      map[ast.Node]bool // `v, ok := <-c`
	noWrap        map[ast.Node]bool // calls directly under defer/go
	reinitFn      map[string]int    // reinit function name -> InitOrder index
	labelPrologue map[*ast.LabeledStmt][]ast.Stmt
	mapChecks     map[ast.Stmt][]ast.Stmt // race-tracker calls to insert before a statement
}

func (r *rewriter) site(n ast.Node, kind string) *ast.BasicLit {
	pos := r.fset.Position(n.Pos())
	st.PerPackage[r.pkg.PkgPath]++
	return &ast.BasicLit{Kind: token.STRING, Value: fmt.Sprintf("%q", fmt.Sprintf("%s:%d#%s", r.rel, pos.Line, kind))}
}

func (r *rewriter) rt(fn string) ast.Expr {
	r.usedRT = true
	return &ast.SelectorExpr{X: ast.NewIdent(rtName), Sel: ast.NewIdent(fn)}
}

func (r *rewriter) rtCall(fn string, args ...ast.Expr) *ast.CallExpr {
	return &ast.CallExpr{Fun: r.rt(fn), Args: args}
}

func (r *rewriter) tmp(prefix string) *ast.Ident {
	r.tmpN++
	return ast.NewIdent(fmt.Sprintf("_vs%s%d", prefix, r.tmpN))
}

func (r *rewriter) typeOf(e ast.Expr) types.Type {
	if tv, ok := r.pkg.TypesInfo.Types[e]; ok {
		return tv.Type
	}
	if id, ok := e.(*ast.Ident); ok {
		if o := r.pkg.TypesInfo.ObjectOf(id); o != nil {
			return o.Type()
		}
	}
	return nil
}

func isChan(t types.Type) bool {
	if t == nil {
		return false
	}
	_, ok := t.Underlying().(*types.Chan)
	return ok
}

func (r *rewriter) rewriteFile() {
	r.skip = map[ast.Node]bool{}
	r.twoValue = map[ast.Node]bool{}
	r.noWrap = map[ast.Node]bool{}
	r.labelPrologue = map[*ast.LabeledStmt][]ast.Stmt{}
	r.mapChecks = map[ast.Stmt][]ast.Stmt{}
	if r.maps {
		r.collectMapAccesses()
	}
	astutil.Apply(r.file, r.pre, r.post)
}

func (r *rewriter) pre(c *astutil.Cursor) bool {
	switch n := c.Node().(type) {
	case *ast.SelectStmt:
		for _, cl := range n.Body.List {
			cc := cl.(*ast.CommClause)
			if cc.Comm == nil {
				continue
			}
			r.skip[cc.Comm] = true
			switch s := cc.Comm.(type) {
			case *ast.ExprStmt:
				r.skip[unparen(s.X)] = true
			case *ast.AssignStmt:
				r.skip[unparen(s.Rhs[0])] = true
			}
		}
	case *ast.AssignStmt:
		if len(n.Lhs) == 2 && len(n.Rhs) == 1 {
			if u, ok := unparen(n.Rhs[0]).(*ast.UnaryExpr); ok && u.Op == token.ARROW {
				r.twoValue[u] = true
			}
		}
	case *ast.ValueSpec:
		if len(n.Names) == 2 && len(n.Values) == 1 {
			if u, ok := unparen(n.Values[0]).(*ast.UnaryExpr); ok && u.Op == token.ARROW {
				r.twoValue[u] = true
			}
		}
	case *ast.DeferStmt:
		r.noWrap[n.Call] = true
	case *ast.GoStmt:
		r.noWrap[n.Call] = true
	}
	return true
}

func unparen(e ast.Expr) ast.Expr {
	for {
		p, ok := e.(*ast.ParenExpr)
		if !ok {
			return e
		}
		e = p.X
	}
}

func (r *rewriter) post(c *astutil.Cursor) bool {
	if stn, ok := c.Node().(ast.Stmt); ok {
		if chk := r.mapChecks[stn]; chk != nil {
			delete(r.mapChecks, stn)
			if c.Index() >= 0 {
				for _, x := range chk {
					c.InsertBefore(x)
					st.MapChecks++
				}
			}
		}
	}
	switch n := c.Node().(type) {
	case *ast.GoStmt:
		r.rewriteGo(c, n)
	case *ast.UnaryExpr:
		if n.Op == token.ARROW && !r.skip[n] {
			fn := "Recv"
			if r.twoValue[n] {
				fn = "Recv2"
			}
			st.Recv++
			c.Replace(r.rtCall(fn, r.site(n, "recv"), n.X))
		}
	case *ast.SendStmt:
		if !r.skip[n] {
			switch c.Parent().(type) {
			case *ast.BlockStmt, *ast.CaseClause, *ast.CommClause, *ast.LabeledStmt:
				st.Send++
				if r.hb {
					// { c := ch; ChanRel(c, true); c <- v; Yield; ChanAcq(c, true) }
					chv := r.tmp("c")
					c.Replace(&ast.BlockStmt{List: []ast.Stmt{
						&ast.AssignStmt{Lhs: []ast.Expr{chv}, Tok: token.DEFINE, Rhs: []ast.Expr{n.Chan}},
						&ast.ExprStmt{X: r.rtCall("ChanRel", chv, ast.NewIdent("true"))},
						&ast.SendStmt{Chan: chv, Value: n.Value},
						&ast.ExprStmt{X: r.rtCall("Yield", r.site(n, "send"))},
						&ast.ExprStmt{X: r.rtCall("ChanAcq", chv, ast.NewIdent("true"))},
					}})
					return true
				}
				c.Replace(&ast.BlockStmt{List: []ast.Stmt{n, &ast.ExprStmt{X: r.rtCall("Yield", r.site(n, "send"))}}})
			}
		}
	case *ast.RangeStmt:
		r.rewriteRange(c, n)
	case *ast.AssignStmt, *ast.IncDecStmt:
		if r.rmw {
			r.rewriteRMW(c)
		}
	case *ast.SelectStmt:
		r.rewriteSelect(c, n)
	case *ast.CallExpr:
		r.rewriteCall(c, n)
	case *ast.LabeledStmt:
		if p, ok := r.labelPrologue[n]; ok {
			delete(r.labelPrologue, n)
			c.Replace(&ast.BlockStmt{List: append(p, n)})
		}
	case *ast.SelectorExpr:
		if r.fs {
			r.rewriteFSSelector(c, n)
		}
	}
	return true
}

// ---- R1 --------------------------------------------------------------------

func (r *rewriter) rewriteGo(c *astutil.Cursor, n *ast.GoStmt) {
	call := n.Call
	site := r.site(n, "go")
	if fl, ok := call.Fun.(*ast.FuncLit); ok && len(call.Args) == 0 {
		st.Go++
		c.Replace(&ast.ExprStmt{X: r.rtCall("Go", site, fl)})
		return
	}
	// builtins / conversions: leave
	if id, ok := call.Fun.(*ast.Ident); ok {
		if _, isB := r.pkg.TypesInfo.Uses[id].(*types.Builtin); isB {
			st.GoSkipped++
			return
		}
	}
	if tv, ok := r.pkg.TypesInfo.Types[call.Fun]; ok && tv.IsType() {
		st.GoSkipped++
		return
	}
	// multi-value argument f(g()) : leave
	if len(call.Args) == 1 {
		if t := r.typeOf(call.Args[0]); t != nil {
			if _, isTuple := t.(*types.Tuple); isTuple {
				st.GoSkipped++
				return
			}
		}
	}
	st.Go++
	var stmts []ast.Stmt
	fv := r.tmp("f")
	stmts = append(stmts, &ast.AssignStmt{Lhs: []ast.Expr{fv}, Tok: token.DEFINE, Rhs: []ast.Expr{call.Fun}})
	var args []ast.Expr
	// parameter types are needed for untyped constants (e.g. nil): use a typed closure instead
	sig, _ := r.typeOf(call.Fun).Underlying().(*types.Signature)
	for i, a := range call.Args {
		if tv, ok := r.pkg.TypesInfo.Types[a]; ok && (tv.Value != nil || tv.IsNil()) {
			// constants and nil are evaluated identically later
			args = append(args, a)
			continue
		}
		_ = sig
		_ = i
		av := r.tmp("a")
		stmts = append(stmts, &ast.AssignStmt{Lhs: []ast.Expr{av}, Tok: token.DEFINE, Rhs: []ast.Expr{a}})
		args = append(args, av)
	}
	inner := &ast.CallExpr{Fun: fv, Args: args, Ellipsis: call.Ellipsis}
	if call.Ellipsis == token.NoPos {
		inner.Ellipsis = token.NoPos
	} else {
		inner.Ellipsis = 1
	}
	lit := &ast.FuncLit{Type: &ast.FuncType{Params: &ast.FieldList{}}, Body: &ast.BlockStmt{List: []ast.Stmt{&ast.ExprStmt{X: inner}}}}
	stmts = append(stmts, &ast.ExprStmt{X: r.rtCall("Go", site, lit)})
	c.Replace(&ast.BlockStmt{List: stmts})
}

// ---- range -----------------------------------------------------------------

func simpleExpr(e ast.Expr) bool {
	switch x := e.(type) {
	case *ast.Ident:
		return true
	case *ast.SelectorExpr:
		return simpleExpr(x.X)
	case *ast.ParenExpr:
		return simpleExpr(x.X)
	case *ast.StarExpr:
		return simpleExpr(x.X)
	}
	return false
}

func isBlank(e ast.Expr) bool {
	id, ok := e.(*ast.Ident)
	return e == nil || (ok && id.Name == "_")
}

func (r *rewriter) rewriteRange(c *astutil.Cursor, n *ast.RangeStmt) {
	t := r.typeOf(n.X)
	if t == nil {
		return
	}
	switch u := t.Underlying().(type) {
	case *types.Chan:
		// for v := range ch {B}  =>  for { v, ok := Recv2(ch); if !ok {break}; B }
		st.RangeChan++
		okv := r.tmp("ok")
		var lhs0 ast.Expr = ast.NewIdent("_")
		tok := token.DEFINE
		if !isBlank(n.Key) {
			lhs0 = n.Key
			tok = n.Tok
		}
		var pre []ast.Stmt
		if tok == token.ASSIGN {
			pre = append(pre, &ast.DeclStmt{Decl: &ast.GenDecl{Tok: token.VAR, Specs: []ast.Spec{&ast.ValueSpec{Names: []*ast.Ident{okv}, Type: ast.NewIdent("bool")}}}})
		}
		chv := r.tmp("c")
		asg := &ast.AssignStmt{Lhs: []ast.Expr{lhs0, okv}, Tok: tok, Rhs: []ast.Expr{r.rtCall("Recv2", r.site(n, "rangechan"), chv)}}
		brk := &ast.IfStmt{Cond: &ast.UnaryExpr{Op: token.NOT, X: okv}, Body: &ast.BlockStmt{List: []ast.Stmt{&ast.BranchStmt{Tok: token.BREAK}}}}
		body := append(append(pre, asg, brk), &ast.BlockStmt{List: n.Body.List})
		loop := &ast.ForStmt{Body: &ast.BlockStmt{List: body}}
		// channel expression evaluated once
		decl := &ast.AssignStmt{Lhs: []ast.Expr{chv}, Tok: token.DEFINE, Rhs: []ast.Expr{n.X}}
		if _, isLabeled := c.Parent().(*ast.LabeledStmt); isLabeled {
			// keep the label on the loop: evaluate the channel inside an init statement
			loop.Init = decl
			c.Replace(loop)
			return
		}
		c.Replace(&ast.BlockStmt{List: []ast.Stmt{decl, loop}})
	case *types.Map:
		kb, ok := u.Key().Underlying().(*types.Basic)
		if !ok || kb.Info()&types.IsOrdered == 0 || !simpleExpr(n.X) {
			st.UnsortedMap++
			st.UncontrolledSites = append(st.UncontrolledSites, fmt.Sprintf("%s:%d map", r.rel, r.fset.Position(n.Pos()).Line))
			return
		}
		st.MapRange++
		kv := r.tmp("k")
		var head []ast.Stmt
		needV := !isBlank(n.Value)
		needK := !isBlank(n.Key)
		okv := r.tmp("ok")
		var vv ast.Expr = ast.NewIdent("_")
		if needV {
			vv = r.tmp("v")
		}
		head = append(head, &ast.AssignStmt{Lhs: []ast.Expr{vv, okv}, Tok: token.DEFINE, Rhs: []ast.Expr{&ast.IndexExpr{X: n.X, Index: kv}}})
		head = append(head, &ast.IfStmt{Cond: &ast.UnaryExpr{Op: token.NOT, X: okv}, Body: &ast.BlockStmt{List: []ast.Stmt{&ast.BranchStmt{Tok: token.CONTINUE}}}})
		if needK {
			head = append(head, &ast.AssignStmt{Lhs: []ast.Expr{n.Key}, Tok: n.Tok, Rhs: []ast.Expr{kv}})
			if n.Tok == token.DEFINE {
				head = append(head, &ast.AssignStmt{Lhs: []ast.Expr{ast.NewIdent("_")}, Tok: token.ASSIGN, Rhs: []ast.Expr{n.Key}})
			}
		}
		if needV {
			head = append(head, &ast.AssignStmt{Lhs: []ast.Expr{n.Value}, Tok: n.Tok, Rhs: []ast.Expr{vv}})
			if n.Tok == token.DEFINE {
				head = append(head, &ast.AssignStmt{Lhs: []ast.Expr{ast.NewIdent("_")}, Tok: token.ASSIGN, Rhs: []ast.Expr{n.Value}})
			}
		}
		n.Body.List = append(head, &ast.BlockStmt{List: n.Body.List})
		n.Key = ast.NewIdent("_")
		n.Value = kv
		n.Tok = token.DEFINE
		n.X = r.rtCall("MapKeys", r.site(n, "maprange"), n.X)
	}
}

// ---- select ----------------------------------------------------------------

func (r *rewriter) rewriteSelect(c *astutil.Cursor, n *ast.SelectStmt) {
	var comm []*ast.CommClause
	var def *ast.CommClause
	for _, cl := range n.Body.List {
		cc := cl.(*ast.CommClause)
		if cc.Comm == nil {
			def = cc
		} else {
			comm = append(comm, cc)
		}
	}
	if len(comm) == 0 {
		return
	}
	if len(comm) == 1 {
		st.SelectSimple++
		var relStmt, acqStmt ast.Stmt
		if r.hb {
			var chx ast.Expr
			isSend := false
			switch s := comm[0].Comm.(type) {
			case *ast.SendStmt:
				chx, isSend = s.Chan, true
			case *ast.ExprStmt:
				chx = unparen(s.X).(*ast.UnaryExpr).X
			case *ast.AssignStmt:
				chx = unparen(s.Rhs[0]).(*ast.UnaryExpr).X
			}
			sendLit := ast.NewIdent(fmt.Sprint(isSend))
			if chx != nil && simpleExpr(chx) {
				relStmt = &ast.ExprStmt{X: r.rtCall("ChanRel", chx, sendLit)}
				acqStmt = &ast.ExprStmt{X: r.rtCall("ChanAcq", chx, sendLit)}
			} else {
				relStmt = &ast.ExprStmt{X: r.rtCall("Barrier")}
				acqStmt = &ast.ExprStmt{X: r.rtCall("Barrier")}
			}
		}
		if def != nil {
			// non-blocking single op: a visibility point, yield before
			c.InsertBefore(&ast.ExprStmt{X: r.rtCall("Yield", r.site(n, "selnb"))})
			if relStmt != nil {
				c.InsertBefore(relStmt)
				comm[0].Body = append([]ast.Stmt{acqStmt}, comm[0].Body...)
			}
		} else {
			head := []ast.Stmt{&ast.ExprStmt{X: r.rtCall("Yield", r.site(n, "sel1"))}}
			if relStmt != nil {
				c.InsertBefore(relStmt)
				head = append(head, acqStmt)
			}
			comm[0].Body = append(head, comm[0].Body...)
		}
		return
	}
	st.Select++
	site := r.site(n, "select")
	var stmts []ast.Stmt
	selv := r.tmp("sel")
	stmts = append(stmts, &ast.AssignStmt{Lhs: []ast.Expr{selv}, Tok: token.DEFINE, Rhs: []ast.Expr{intLit(-1)}})
	type clauseInfo struct {
		ch, val  ast.Expr // temporaries
		rv, okv  *ast.Ident
		isSend   bool
		bodyHead []ast.Stmt
	}
	infos := make([]*clauseInfo, len(comm))
	for i, cc := range comm {
		ci := &clauseInfo{}
		infos[i] = ci
		switch s := cc.Comm.(type) {
		case *ast.SendStmt:
			ci.isSend = true
			ci.ch = r.tmp("c")
			ci.val = r.tmp("x")
			stmts = append(stmts, &ast.AssignStmt{Lhs: []ast.Expr{ci.ch}, Tok: token.DEFINE, Rhs: []ast.Expr{s.Chan}})
			// typed temporary for the value: declare via a helper that fixes the type from the channel
			stmts = append(stmts, &ast.AssignStmt{Lhs: []ast.Expr{ci.val}, Tok: token.DEFINE, Rhs: []ast.Expr{r.rtCall("ZeroSend", ci.ch)}})
			stmts = append(stmts, &ast.AssignStmt{Lhs: []ast.Expr{ci.val}, Tok: token.ASSIGN, Rhs: []ast.Expr{s.Value}})
		case *ast.ExprStmt:
			u := unparen(s.X).(*ast.UnaryExpr)
			ci.ch = r.tmp("c")
			stmts = append(stmts, &ast.AssignStmt{Lhs: []ast.Expr{ci.ch}, Tok: token.DEFINE, Rhs: []ast.Expr{u.X}})
		case *ast.AssignStmt:
			u := unparen(s.Rhs[0]).(*ast.UnaryExpr)
			ci.ch = r.tmp("c")
			stmts = append(stmts, &ast.AssignStmt{Lhs: []ast.Expr{ci.ch}, Tok: token.DEFINE, Rhs: []ast.Expr{u.X}})
		}
		if !ci.isSend {
			ci.rv = r.tmp("r")
			ci.okv = r.tmp("ok")
			stmts = append(stmts, &ast.AssignStmt{Lhs: []ast.Expr{ci.rv, ci.okv}, Tok: token.DEFINE, Rhs: []ast.Expr{r.rtCall("ZeroOf", ci.ch)}})
			stmts = append(stmts, &ast.AssignStmt{Lhs: []ast.Expr{ast.NewIdent("_"), ast.NewIdent("_")}, Tok: token.ASSIGN, Rhs: []ast.Expr{ci.rv, ci.okv}})
			if as, ok := cc.Comm.(*ast.AssignStmt); ok {
				// v := <-c / v, ok := <-c / v = <-c
				rhs := []ast.Expr{ci.rv}
				if len(as.Lhs) == 2 {
					rhs = append(rhs, ci.okv)
				}
				ci.bodyHead = append(ci.bodyHead, &ast.AssignStmt{Lhs: as.Lhs, Tok: as.Tok, Rhs: rhs})
				if as.Tok == token.DEFINE {
					for _, l := range as.Lhs {
						if !isBlank(l) {
							ci.bodyHead = append(ci.bodyHead, &ast.AssignStmt{Lhs: []ast.Expr{ast.NewIdent("_")}, Tok: token.ASSIGN, Rhs: []ast.Expr{l}})
						}
					}
				}
			}
		}
	}
	probeClause := func(i int) *ast.CommClause {
		ci := infos[i]
		set := &ast.AssignStmt{Lhs: []ast.Expr{selv}, Tok: token.ASSIGN, Rhs: []ast.Expr{intLit(i)}}
		var cm ast.Stmt
		if ci.isSend {
			cm = &ast.SendStmt{Chan: ci.ch, Value: ci.val}
		} else {
			cm = &ast.AssignStmt{Lhs: []ast.Expr{ci.rv, ci.okv}, Tok: token.ASSIGN, Rhs: []ast.Expr{&ast.UnaryExpr{Op: token.ARROW, X: ci.ch}}}
		}
		return &ast.CommClause{Comm: cm, Body: []ast.Stmt{set}}
	}
	// permuted non-blocking probes
	iv := r.tmp("i")
	var cases []ast.Stmt
	for i := range comm {
		nb := &ast.SelectStmt{Body: &ast.BlockStmt{List: []ast.Stmt{probeClause(i), &ast.CommClause{}}}}
		cases = append(cases, &ast.CaseClause{List: []ast.Expr{intLit(i)}, Body: []ast.Stmt{nb}})
	}
	probeLoop := &ast.RangeStmt{
		Key: ast.NewIdent("_"), Value: iv, Tok: token.DEFINE,
		X: r.rtCall("SelectOrder", site, intLit(len(comm))),
		Body: &ast.BlockStmt{List: []ast.Stmt{
			&ast.SwitchStmt{Tag: iv, Body: &ast.BlockStmt{List: cases}},
			&ast.IfStmt{Cond: &ast.BinaryExpr{X: selv, Op: token.GEQ, Y: intLit(0)}, Body: &ast.BlockStmt{List: []ast.Stmt{&ast.BranchStmt{Tok: token.BREAK}}}},
		}},
	}
	if r.hb {
		for _, ci := range infos {
			stmts = append(stmts, &ast.ExprStmt{X: r.rtCall("ChanRel", ci.ch, ast.NewIdent(fmt.Sprint(ci.isSend)))})
		}
	}
	stmts = append(stmts, probeLoop)
	// fallback
	var fb ast.Stmt
	if def != nil {
		fb = &ast.AssignStmt{Lhs: []ast.Expr{selv}, Tok: token.ASSIGN, Rhs: []ast.Expr{intLit(len(comm))}}
	} else {
		var cls []ast.Stmt
		for i := range comm {
			cls = append(cls, probeClause(i))
		}
		fb = &ast.SelectStmt{Body: &ast.BlockStmt{List: cls}}
	}
	stmts = append(stmts, &ast.IfStmt{Cond: &ast.BinaryExpr{X: selv, Op: token.LSS, Y: intLit(0)}, Body: &ast.BlockStmt{List: []ast.Stmt{fb}}})
	if def == nil {
		stmts = append(stmts, &ast.ExprStmt{X: r.rtCall("Yield", r.site(n, "selected"))})
	} else {
		stmts = append(stmts, &ast.ExprStmt{X: r.rtCall("Yield", r.site(n, "selected-nb"))})
	}
	// dispatch
	var dcases []ast.Stmt
	for i, cc := range comm {
		if r.hb {
			infos[i].bodyHead = append([]ast.Stmt{&ast.ExprStmt{X: r.rtCall("ChanAcq", infos[i].ch, ast.NewIdent(fmt.Sprint(infos[i].isSend)))}}, infos[i].bodyHead...)
		}
		body := append(infos[i].bodyHead, cc.Body...)
		dcases = append(dcases, &ast.CaseClause{List: []ast.Expr{intLit(i)}, Body: body})
	}
	if def != nil {
		dcases = append(dcases, &ast.CaseClause{List: []ast.Expr{intLit(len(comm))}, Body: def.Body})
	}
	dcases = append(dcases, &ast.CaseClause{Body: []ast.Stmt{&ast.ExprStmt{X: &ast.CallExpr{Fun: ast.NewIdent("panic"), Args: []ast.Expr{&ast.BasicLit{Kind: token.STRING, Value: `"simify: unreachable select dispatch"`}}}}}})
	sw := &ast.SwitchStmt{Tag: selv, Body: &ast.BlockStmt{List: dcases}}
	if ls, isLabeled := c.Parent().(*ast.LabeledStmt); isLabeled {
		// keep the label on the dispatch switch (break L leaves it); the prologue is
		// placed in front of the labeled statement when the walk reaches it.
		r.labelPrologue[ls] = stmts
		c.Replace(sw)
		return
	}
	stmts = append(stmts, sw)
	c.Replace(&ast.BlockStmt{List: stmts})
}

func intLit(i int) ast.Expr {
	if i < 0 {
		return &ast.UnaryExpr{Op: token.SUB, X: &ast.BasicLit{Kind: token.INT, Value: fmt.Sprint(-i)}}
	}
	return &ast.BasicLit{Kind: token.INT, Value: fmt.Sprint(i)}
}
