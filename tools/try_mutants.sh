#!/bin/bash
# usage: try_mutants.sh <ID> [runs]  -- applies each /tmp/mutants-<ID>/m*.diff to /repo, runs the check, reverts.
ID=$1; RUNS=${2:-0}
R=${VERIF_REPO:-/repo}; export VERIF_REPO=$R; cd $R || exit 2
if [ -n "$(git status --porcelain)" ]; then echo "repo not clean"; exit 2; fi
cp /verif/evidence/$ID.json /verif/evidence/$ID.json.bak 2>/dev/null
for d in ${MUTDIR:-/tmp/mutants}-$ID/m*.diff; do
  n=$(basename $d .diff)
  if ! git apply --check $d 2>/dev/null; then echo "$ID $n: DOES-NOT-APPLY"; continue; fi
  git apply $d
  if [ "$RUNS" -gt 0 ]; then out=$(cd /verif && VERIF_SCRATCH=/var/tmp/verif.mut.$ID ./bin/verifctl check $ID --runs $RUNS 2>&1); else out=$(cd /verif && VERIF_SCRATCH=/var/tmp/verif.mut.$ID ./bin/verifctl check $ID 2>&1); fi
  rc=$?
  git checkout -- . 
  v=$(echo "$out" | grep -c "^VIOLATION")
  cls=$(echo "$out" | grep "class=" | head -2 | tr '\n' ' ' | cut -c1-220)
  echo "$ID $n: exit=$rc violations=$v $cls"
  [ $rc -eq 2 ] && echo "$out" | tail -5
  cp /verif/evidence/$ID.json.bak /verif/evidence/$ID.json 2>/dev/null
done
