#!/bin/bash
# usage: eval_seeded.sh <ID>... -- applies every seeded/<ID>/*/patch.diff to the scratch worktree $VERIF_REPO (never /repo),
# runs the quick check against it, reverts, and prints one line per seeded change.
R=${VERIF_REPO:?set VERIF_REPO to a scratch worktree of /repo}; [ "$R" = /repo ] && { echo "refusing to touch /repo"; exit 2; }
export VERIF_REPO=$R
V=${VERIF_DIR:-/verif}   # a snapshot of /verif may be evaluated while /verif itself is being edited
cd $R || exit 2
git checkout -q -- . ; git clean -fdq
for ID in "$@"; do
  cp $V/evidence/$ID.json /var/tmp/evidence-$ID.bak 2>/dev/null
  for d in $V/seeded/$ID/${PATTERN:-*}/patch.diff; do
    n=$(basename $(dirname $d))
    if ! git apply --check $d 2>/dev/null; then echo "$ID $n: DOES-NOT-APPLY"; continue; fi
    git apply $d
    out=$(cd $V && VERIF_SCRATCH=/var/tmp/verif.seeded.$ID.$$ ./bin/verifctl check $ID 2>&1); rc=$?
    git checkout -q -- . ; git clean -fdq
    cls=$(echo "$out" | grep "class=" | sed 's/.*class=\([^ ]*\).*/\1/' | sort | uniq -c | sort -rn | awk '{printf "%s(%s) ", $2, $1}')
    echo "$ID $n: exit=$rc $cls"
    [ $rc -eq 2 ] && echo "$out" | tail -5
  done
  cp /var/tmp/evidence-$ID.bak $V/evidence/$ID.json 2>/dev/null
done
