#!/bin/bash
# run from a vp snapshot: builds there and runs thorough tiers with a given seed
export GOFLAGS=-mod=mod GOPROXY=off GOSUMDB=off GOTOOLCHAIN=local
export VERIF_DIR=$PWD VERIF_WORKERS=${VERIF_WORKERS:-10}
mkdir -p bin && (cd cmd/verifctl && go build -o ../../bin/verifctl .) && (cd tools/simify && go build -o ../../bin/simify .) || exit 2
for id in "$@"; do
  echo "=== $id seed=$VERIF_SEED"; ./bin/verifctl check $id --tier thorough ${VERIF_RUNS:+--runs $VERIF_RUNS} 2>&1 | grep -v "^goroutine\|^\s\|^$\|created by" | grep -v "^github.com\|^testing\|^internal\|^runtime" | tail -25
done
