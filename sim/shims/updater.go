package updater

// VerifSimResource returns a registered resource.
func (reg *ResourceRegistry) VerifSimResource(id string) (*Resource, bool) {
	reg.RLock()
	defer reg.RUnlock()
	r, ok := reg.resources[id]
	return r, ok
}
