package modules

import (
	"context"
	"sync/atomic"
	"time"

	"github.com/safing/portbase/log"
)

// VerifSimReset restores the package to its state at process start.
func VerifSimReset() {
	VerifSimReinit()
	var z int32
	microTasks = &z
	th := int32(32)
	microTasksThreshhold = &th
	triggerLogWriting = log.TriggerWriterChannel()
	reportToStdErr = false
}

// VerifSimTimeouts exposes the start and stop timeouts.
func VerifSimTimeouts() (start, stop time.Duration) { return moduleStartTimeout, moduleStopTimeout }

// VerifSimStatus reads a module's status without locking (scheduler-side monitors only).
func VerifSimStatus(m *Module) uint8 { return m.status }

// VerifSimMicroTasks returns the global microtask counter.
func VerifSimMicroTasks() int32 { return atomic.LoadInt32(microTasks) }

// VerifSimCounters returns the per-module work counters.
func VerifSimCounters(m *Module) (workers, tasks, microtasks int32, ctrl bool) {
	return atomic.LoadInt32(m.workerCnt), atomic.LoadInt32(m.taskCnt), atomic.LoadInt32(m.microTaskCnt), m.ctrlFuncRunning.IsSet()
}

// VerifSimTaskLimits exposes scheduler constants named by the properties.
func VerifSimTaskLimits() (timeslotWait, executionWait, defaultDelay time.Duration) {
	return maxTimeslotWait, maxExecutionWait, defaultMaxDelay
}

// VerifSimTaskExecuting reads a task's executing flag without locking.
func VerifSimTaskExecuting(t *Task) bool { return t.executing }

// VerifSimMarkStopped makes TriggerEvent / NewTask on m no-ops (its stop flag is set).
func VerifSimMarkStopped(m *Module) { m.stopFlag.Set() }

// VerifSimSetClearanceQueue replaces the microtask clearance queues by ones of the given capacity (a tuning knob:
// the shipped capacity of GOMAXPROCS*100 keeps the queue-full paths out of reach of small workloads).
func VerifSimSetClearanceQueue(n int) {
	mediumPriorityClearance = make(chan chan struct{}, n)
	lowPriorityClearance = make(chan chan struct{}, n)
}

// VerifSimRenewContext gives the module a fresh context (contexts create their Done channel on first use: one that
// was first used in an earlier simulated run belongs to that run).
func VerifSimRenewContext(m *Module) {
	m.Lock()
	defer m.Unlock()
	m.Ctx, m.cancelCtx = context.WithCancel(context.Background())
}
