package log

// VerifSimReset restores the package to its state at process start.
func VerifSimReset() {
	VerifSimReinit()
	logBuffer = nil
}

// VerifSimBufferCap returns the capacity of the log buffer.
func VerifSimBufferCap() int { return cap(logBuffer) }
