package log

// VerifSimReset restores the package to its state at process start.
func VerifSimReset() {
	VerifSimReinit()
	logBuffer = nil
}

// VerifSimBufferCap returns the capacity of the log buffer.
func VerifSimBufferCap() int { return cap(logBuffer) }

// VerifSimTracerLines returns the messages collected on the tracer of a
// submitted line (nil if the line has no tracer).
func VerifSimTracerLines(m Message) []string {
	ll, ok := m.(*logLine)
	if !ok || ll.tracer == nil {
		return nil
	}
	out := []string{}
	for _, l := range ll.tracer.logs {
		out = append(out, l.msg)
	}
	return out
}
