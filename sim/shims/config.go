package config

import "github.com/safing/portbase/modules"

// VerifSimReset restores the package to its state at process start
// (registry with only the built-in options).
func VerifSimReset() {
	VerifSimReinit()
	registerExpertiseLevelOption()
	registerReleaseLevelOption()
	dbController = nil
}

// VerifSimSetConfigPath sets the persistence file.
func VerifSimSetConfigPath(p string) { configFilePath = p }

// VerifSimLoadConfig loads the persistence file.
func VerifSimLoadConfig() error { return loadConfig(false) }

// VerifSimRegisterBasic registers the basic options (normally done in prep).
func VerifSimRegisterBasic() error { return registerBasicOptions() }

// VerifSimMuteEvents stops the package from triggering its change event
// (used by harnesses that do not start the module system).
func VerifSimMuteEvents() { modules.VerifSimMarkStopped(module) }
