package config

// VerifSimReset restores the package to its state at process start
// (registry with only the built-in options).
func VerifSimReset() {
	VerifSimReinit()
	registerExpertiseLevelOption()
	registerReleaseLevelOption()
	dbController = nil
}

// VerifSimSetConfigPath sets the persistence file.
func VerifSimSetConfigPath(p string) { configFilePath = p }

// VerifSimLoadConfig loads the persistence file.
func VerifSimLoadConfig() error { return loadConfig(false) }
