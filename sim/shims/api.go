package api

import (
	"net/http"

	"github.com/safing/portbase/config"
	"github.com/safing/portbase/modules"
)

var verifSimInitDone bool

// VerifSimInit registers the api package's config options (normally done in prep).
func VerifSimInit() error {
	if verifSimInitDone {
		return nil
	}
	verifSimInitDone = true
	defaultListenAddress = "127.0.0.1:817"
	return registerConfig()
}

// VerifSimResetPackage re-evaluates the package-level initialisers (so that nothing a run left in a package
// variable reaches the next run in the same process) and restores what VerifSimInit set up.
func VerifSimResetPackage() {
	done := verifSimInitDone
	VerifSimReinit()
	verifSimInitDone = done
	if done {
		// what registerConfig assigned (the options themselves live in package config)
		defaultListenAddress = "127.0.0.1:817"
		listenAddressConfig = config.GetAsString(CfgDefaultListenAddressKey, getDefaultListenAddress())
		configuredAPIKeys = config.GetAsStringArray(CfgAPIKeys, []string{})
		devMode = config.Concurrent.GetAsBool(config.CfgDevModeKey, false)
	}
}

// VerifSimResetRun clears credentials state between runs.
func VerifSimResetRun() {
	apiKeysLock.Lock()
	for k := range apiKeys {
		delete(apiKeys, k)
	}
	apiKeysLock.Unlock()
	sessionsLock.Lock()
	for k := range sessions {
		delete(sessions, k)
	}
	sessionsLock.Unlock()
	authFnSet.UnSet()
	authFn = nil
}

// VerifSimRegisterMeta registers the meta endpoints (auth/bearer, auth/basic, auth/reset, ...; normally done in prep).
func VerifSimRegisterMeta() error { return registerMetaEndpoints() }

// VerifSimUpdateAPIKeys imports the configured API keys (normally triggered by the config change event).
func VerifSimUpdateAPIKeys() { _ = updateAPIKeys(nil, nil) } //nolint:staticcheck

// VerifSimCleanSessions runs the session clean-up task body.
func VerifSimCleanSessions() { _ = cleanSessions(nil, nil) } //nolint:staticcheck

// VerifSimHandler returns the main HTTP handler.
func VerifSimHandler() http.Handler { return &mainHandler{mux: mainMux} }

// VerifSimBridgeAddr is the remote address that marks bridge requests.
const VerifSimBridgeAddr = endpointBridgeRemoteAddress

// VerifSimStartWebsocket is the handler behind /api/database/v1 (authentication is the router's business, C12).
func VerifSimStartWebsocket(w http.ResponseWriter, r *http.Request) { startDatabaseWebsocketAPI(w, r) }

// VerifSimModule returns the module of the package.
func VerifSimModule() *modules.Module { return module }
