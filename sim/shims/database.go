package database

// VerifSimReset restores the package to its state at process start.
func VerifSimReset() {
	VerifSimReinit()
}

// VerifSimRawKeys reports which of the given keys are physically present in
// the storage of database name (deleted or expired records included).
func VerifSimRawKeys(name string, keys []string) map[string]bool {
	out := map[string]bool{}
	c, err := getController(name)
	if err != nil {
		return out
	}
	for _, k := range keys {
		if _, err := c.storage.Get(k); err == nil {
			out[k] = true
		}
	}
	return out
}
