package rng

import (
	"time"

	"github.com/seehuhn/fortuna"
)

// VerifSimSeed initialises the generator deterministically (stub for the entropy feeders).
func VerifSimSeed(seed []byte) {
	rngLock.Lock()
	defer rngLock.Unlock()
	rng = fortuna.NewGenerator(newCipher)
	rng.Reseed(seed)
	rngReady = true
	rngBytesRead = 0
	rngLastFeed = time.Now()
	rngFeeder = make(chan []byte) // re-made inside the simulation bubble
}

// VerifSimFeed pretends that fresh entropy has just been fed.
func VerifSimFeed() {
	rngLock.Lock()
	defer rngLock.Unlock()
	rngBytesRead = 0
	rngLastFeed = time.Now()
}
