// Package simkit is the harness-independent part of a simulation worker:
// flags, batch loop, replay, in-process minimisation, statistics.
package simkit

import (
	"encoding/json"
	"flag"
	"fmt"
	"hash/fnv"
	"math/rand/v2"
	"os"
	"runtime"
	"runtime/debug"
	"sort"
	"strings"
	"testing"
	"testing/synctest"
	"time"

	"github.com/safing/portbase/verifsim/simrt"
)

// Harness is implemented by each harness package.
type Harness interface {
	// Generate draws a plan (JSON-serialisable) for one run.
	Generate(prop string, rng *rand.Rand, tier string) any
	// Decode parses a plan from a replay file.
	Decode(prop string, raw json.RawMessage) (any, error)
	// Reset is called inside the bubble before the run (re-initialise packages).
	Reset()
	// Execute is the body of the main simulated goroutine.
	Execute(prop string, plan any, rc *RunCtx)
	// Check runs after the simulation ended (no goroutine is running); it
	// evaluates history oracles and may call rc.Fail.
	Check(prop string, plan any, rc *RunCtx)
	// Shrink returns simpler variants of plan (most aggressive first).
	Shrink(prop string, plan any) []any
	// Tune lets the harness adjust the scheduler configuration for a plan.
	Tune(prop string, plan any, cfg *simrt.Config)
}

// RunCtx carries per-run observations.
type RunCtx struct {
	Prop    string
	Faults  map[string]int // fault kinds that actually fired
	Probes  map[string]int // rare conditions reached
	Hist    []string       // normalised history lines (hashed for distinctness)
	Data    any            // harness private
	failure *simrt.Failure
	Sim     *simrt.Sim
	Stats   simrt.Stats
	Inconcl string // non-empty: run was inconclusive (e.g. stall where no progress is promised)
}

// Fail records a violation (first wins).
func (rc *RunCtx) Fail(class, witness, detail string) {
	if rc.failure == nil {
		rc.failure = &simrt.Failure{Class: class, Witness: witness, Detail: detail}
	}
}

// Failed reports whether a violation was recorded.
func (rc *RunCtx) Failed() bool { return rc.failure != nil }

func (rc *RunCtx) Fault(kind string) { rc.Faults[kind]++ }
func (rc *RunCtx) Probe(name string) { rc.Probes[name]++ }
func (rc *RunCtx) H(format string, a ...any) {
	rc.Hist = append(rc.Hist, fmt.Sprintf(format, a...))
}

// ReplayFile is what a violation is reported as.
type ReplayFile struct {
	Harness   string          `json:"harness"`
	Property  string          `json:"property"`
	Seed      uint64          `json:"seed"`
	Run       int             `json:"run"`
	Tier      string          `json:"tier"`
	Plan      json.RawMessage `json:"plan"`
	Config    simrt.Config    `json:"config"`
	Choices   []int           `json:"choices"`
	Class     string          `json:"class"`
	Witness   string          `json:"witness"`
	Detail    string          `json:"detail,omitempty"`
	Trace     []simrt.Choice  `json:"trace,omitempty"`
	Minimised bool            `json:"minimised"`
	Crash     bool            `json:"crash,omitempty"` // the worker process died on this run
}

// Summary is written by a batch worker.
type Summary struct {
	Property    string            `json:"property"`
	Runs        int               `json:"runs"`
	Steps       int64             `json:"steps"`
	SimTimeS    float64           `json:"sim_time_s"`
	WallS       float64           `json:"wall_s"`
	Strategies  map[string]int    `json:"strategies"`
	Faults      map[string]int    `json:"faults"`
	Probes      map[string]int    `json:"probes"`
	HistHashes  []uint64          `json:"hist_hashes"`
	SchedHashes []uint64          `json:"sched_hashes"`
	Nontrivial  []uint64          `json:"nontrivial_hashes"`
	Stalls      int               `json:"stalls_inconclusive"`
	StepCaps    int               `json:"step_caps"`
	Leaked      int               `json:"leaked_goroutines"`
	Foreign     int               `json:"foreign_goroutines"`
	SelMulti    int               `json:"select_multi_ready"`
	LockCont    int               `json:"lock_contended"`
	Inconcl     map[string]int    `json:"inconclusive"`
	Failures    []ReplayFile      `json:"failures"`
	FailCounts  map[string]int    `json:"fail_counts"`
	Samples     []json.RawMessage `json:"samples"`
	Progress    int               `json:"progress"` // index of the run in flight (for crash attribution)
}

var (
	fMode   = flag.String("sim.mode", "batch", "batch | replay | minimise")
	fProp   = flag.String("sim.prop", "", "property id")
	fSeed   = flag.Uint64("sim.seed", 1, "VERIF_SEED")
	fFrom   = flag.Int("sim.from", 0, "first run index")
	fTo     = flag.Int("sim.to", 1, "one past last run index")
	fTier   = flag.String("sim.tier", "quick", "tier")
	fOut    = flag.String("sim.out", "", "output file")
	fFile   = flag.String("sim.file", "", "replay file")
	fMaxF   = flag.Int("sim.maxfail", 24, "keep at most this many distinct failures per batch")
	fWall   = flag.Duration("sim.wall", 0, "wall-clock budget for the batch (0 = none)")
	fTrace  = flag.Bool("sim.trace", false, "keep labels in traces")
	fPerRun = flag.String("sim.perrun", "", "write one line per run: index, history hash, schedule hash, class")
	fRunTO  = flag.Duration("sim.runtimeout", 60*time.Second, "real-time watchdog per run")
)

func hash64(parts ...string) uint64 {
	h := fnv.New64a()
	for _, p := range parts {
		h.Write([]byte(p))
		h.Write([]byte{0})
	}
	return h.Sum64()
}

// PlanRNG derives the workload PRNG of run idx.
func PlanRNG(seed uint64, prop string, idx int, stream uint64) *rand.Rand {
	return rand.New(rand.NewPCG(seed^hash64(prop), uint64(idx)*4+stream))
}

// DrawConfig draws the scheduler configuration of a run (swarm style).
func DrawConfig(seed uint64, prop string, idx int) simrt.Config {
	r := PlanRNG(seed, prop, idx, 1)
	cfg := simrt.Config{Seed: r.Uint64()}
	switch r.IntN(10) {
	case 0, 1, 2:
		cfg.Strategy = "random"
		cfg.PAdvance = 0.02
	case 3, 4, 5:
		cfg.Strategy = "sticky"
		cfg.PStick = []float64{0.5, 0.8, 0.95}[r.IntN(3)]
		cfg.PAdvance = 0.01
	case 6, 7:
		cfg.Strategy = "pct"
		cfg.PCTDepth = 1 + r.IntN(3)
		cfg.PAdvance = 0.005
	case 8:
		cfg.Strategy = "timersfirst"
		cfg.PAdvance = 0.3
	default:
		cfg.Strategy = "timerslast"
		cfg.PAdvance = 0
	}
	return cfg
}

// RunOne executes one run in a fresh bubble.
func RunOne(t *testing.T, h Harness, prop string, plan any, cfg simrt.Config) (rc *RunCtx, s *simrt.Sim) {
	if os.Getenv("VERIF_RACE_ALL") == "1" {
		cfg.Race = true // exploration aid, see verifctl
	}
	rc = &RunCtx{Prop: prop, Faults: map[string]int{}, Probes: map[string]int{}}
	func() {
		defer func() {
			if p := recover(); p != nil {
				msg := fmt.Sprint(p)
				if !strings.Contains(msg, "deadlock") {
					panic(p)
				}
			}
		}()
		synctest.Test(t, func(t *testing.T) {
			h.Reset()
			s = simrt.New(cfg)
			rc.Sim = s
			s.Run(func() { h.Execute(prop, plan, rc) })
		})
	}()
	if s != nil {
		rc.Stats = s.Stats()
		if f := s.Failure(); f != nil && rc.failure == nil {
			rc.failure = f
		}
	}
	sort.Strings(rc.Stats.MapRaces)
	if rc.failure == nil && len(rc.Stats.MapRaces) > 0 {
		// one violation per pair of access sites, so that a listed finding does not cover a different pair
		rc.failure = &simrt.Failure{Class: prop + ".map-race",
			Witness: "two goroutines access a map or linked list without synchronisation between them; when they overlap the Go runtime aborts the process or the container is corrupted (" + rc.Stats.MapRaces[0] + ")",
			Detail:  strings.Join(rc.Stats.MapRaces, "; ")}
	}
	if cfg.Race && simrt.RaceBuild {
		rc.Probes["race-tracking-on"]++
	}
	if rc.failure == nil {
		h.Check(prop, plan, rc)
	}
	return rc, s
}

func writeJSON(path string, v any) {
	b, err := json.Marshal(v)
	if err != nil {
		fmt.Fprintln(os.Stderr, "simkit: marshal:", err)
		os.Exit(2)
	}
	tmp := path + ".tmp"
	if err := os.WriteFile(tmp, b, 0o644); err != nil {
		fmt.Fprintln(os.Stderr, "simkit:", err)
		os.Exit(2)
	}
	_ = os.Rename(tmp, path)
}

// Main is called from the harness's TestSim.
func Main(t *testing.T, name string, h Harness) {
	if *fProp == "" {
		t.Skip("no -sim.prop")
	}
	debug.SetGCPercent(400)
	switch *fMode {
	case "batch":
		batch(t, name, h)
	case "replay":
		replay(t, name, h)
	case "minimise":
		minimise(t, name, h)
	default:
		t.Fatalf("unknown mode %s", *fMode)
	}
}

// RunIndex is the index of the run being generated (for harnesses that partition a finite table over runs).
var RunIndex int

var watchdogCh = make(chan string, 1)

func startWatchdog() {
	go func() {
		cur := ""
		var since time.Time
		tk := time.NewTicker(500 * time.Millisecond)
		for {
			select {
			case c := <-watchdogCh:
				cur = c
				since = time.Now()
			case <-tk.C:
				if cur != "" && time.Since(since) > *fRunTO {
					fmt.Fprintf(os.Stderr, "simkit: WATCHDOG run %s exceeded %s real time\n", cur, *fRunTO)
					buf := make([]byte, 1<<20)
					n := runtimeStack(buf)
					os.Stderr.Write(buf[:n])
					os.Exit(3)
				}
			}
		}
	}()
}

func batch(t *testing.T, name string, h Harness) {
	startWatchdog()
	sum := &Summary{Property: *fProp, Strategies: map[string]int{}, Faults: map[string]int{}, Probes: map[string]int{}, Inconcl: map[string]int{}, FailCounts: map[string]int{}}
	hist := map[uint64]bool{}
	sched := map[uint64]bool{}
	nontriv := map[uint64]bool{}
	var perRun []string
	start := time.Now()
	flush := func() {
		sum.HistHashes = keys(hist)
		sum.SchedHashes = keys(sched)
		sum.Nontrivial = keys(nontriv)
		sum.WallS = time.Since(start).Seconds()
		if *fOut != "" {
			writeJSON(*fOut, sum)
		}
	}
	for idx := *fFrom; idx < *fTo; idx++ {
		if *fWall > 0 && time.Since(start) > *fWall {
			break
		}
		sum.Progress = idx
		if (idx-*fFrom)%32 == 0 {
			flush()
		}
		if *fOut != "" {
			_ = os.WriteFile(*fOut+".progress", []byte(fmt.Sprint(idx)), 0o644)
		}
		RunIndex = idx
		plan := h.Generate(*fProp, PlanRNG(*fSeed, *fProp, idx, 0), *fTier)
		cfg := DrawConfig(*fSeed, *fProp, idx)
		cfg.KeepLabels = *fTrace
		h.Tune(*fProp, plan, &cfg)
		watchdogCh <- fmt.Sprintf("%s seed=%d run=%d", *fProp, *fSeed, idx)
		rc, s := RunOne(t, h, *fProp, plan, cfg)
		watchdogCh <- ""
		sum.Runs++
		sum.Strategies[cfg.Strategy]++
		sum.Steps += int64(rc.Stats.Steps)
		sum.SimTimeS += rc.Stats.SimTime.Seconds()
		sum.Leaked += rc.Stats.Leaked
		sum.Foreign += rc.Stats.Foreign
		sum.SelMulti += rc.Stats.SelMulti
		sum.LockCont += rc.Stats.LockContended
		if rc.Stats.StepCap {
			sum.StepCaps++
		}
		if rc.Inconcl != "" {
			sum.Inconcl[rc.Inconcl]++
		}
		for k, v := range rc.Faults {
			sum.Faults[k] += v
		}
		for k, v := range rc.Probes {
			sum.Probes[k] += v
		}
		hh := hash64(rc.Hist...)
		hist[hh] = true
		var sh uint64
		if s != nil {
			var sb strings.Builder
			for _, c := range s.Choices() {
				fmt.Fprintf(&sb, "%d,", c)
			}
			sh = hash64(sb.String())
			sched[sh] = true
		}
		if d := os.Getenv("VERIF_DUMP_TRACE"); d != "" && s != nil {
			// debugging aid for divergences: the full decision trace of every run
			var sb strings.Builder
			for _, c := range s.Trace() {
				fmt.Fprintf(&sb, "%s %d/%d %s\n", c.Kind, c.C, c.N, c.Label)
			}
			_ = os.WriteFile(fmt.Sprintf("%s/trace-%d-%d.txt", d, *fFrom, idx), []byte(sb.String()), 0o644)
		}
		if *fPerRun != "" {
			cls := ""
			if rc.failure != nil {
				cls = rc.failure.Class + "/" + rc.failure.Witness
			}
			perRun = append(perRun, fmt.Sprintf("%d %x %x steps=%d %s", idx, hh, sh, rc.Stats.Steps, cls))
		}
		if rc.Stats.Switches >= 2 || len(rc.Faults) > 0 {
			nontriv[hh] = true
		}
		if len(sum.Samples) < 3 {
			pj, _ := json.Marshal(map[string]any{"run": idx, "strategy": cfg.Strategy, "plan": plan, "steps": rc.Stats.Steps,
				"sim_time_s": rc.Stats.SimTime.Seconds(), "history_head": head(rc.Hist, 40), "faults": rc.Faults})
			sum.Samples = append(sum.Samples, pj)
		}
		if rc.failure != nil {
			pj, _ := json.Marshal(plan)
			rf := ReplayFile{Harness: name, Property: *fProp, Seed: *fSeed, Run: idx, Tier: *fTier, Plan: pj, Config: cfg,
				Class: rc.failure.Class, Witness: rc.failure.Witness, Detail: rc.failure.Detail}
			if s != nil {
				rf.Choices = s.Choices()
			}
			key := rf.Class + "|" + rf.Witness
			sum.FailCounts[key]++
			if sum.FailCounts[key] == 1 && len(sum.Failures) < *fMaxF {
				sum.Failures = append(sum.Failures, rf)
			}
		}
	}
	sum.Progress = -1
	flush()
	if *fPerRun != "" {
		_ = os.WriteFile(*fPerRun, []byte(strings.Join(perRun, "\n")+"\n"), 0o644)
	}
}

func head(s []string, n int) []string {
	if len(s) > n {
		return s[:n]
	}
	return s
}

func keys(m map[uint64]bool) []uint64 {
	out := make([]uint64, 0, len(m))
	for k := range m {
		out = append(out, k)
	}
	sort.Slice(out, func(i, j int) bool { return out[i] < out[j] })
	return out
}

func readReplay(t *testing.T) ReplayFile {
	b, err := os.ReadFile(*fFile)
	if err != nil {
		t.Fatalf("read replay: %v", err)
	}
	var rf ReplayFile
	if err := json.Unmarshal(b, &rf); err != nil {
		t.Fatalf("parse replay: %v", err)
	}
	return rf
}

// ReplayResult is written by replay mode.
type ReplayResult struct {
	Class   string         `json:"class"`
	Witness string         `json:"witness"`
	Detail  string         `json:"detail"`
	Hist    []string       `json:"history"`
	Trace   []simrt.Choice `json:"trace"`
	Stats   simrt.Stats    `json:"stats"`
	Inconcl string         `json:"inconclusive,omitempty"`
}

func replayCfg(rf ReplayFile) simrt.Config {
	cfg := rf.Config
	if rf.Choices != nil || rf.Minimised {
		cfg.Strategy = "replay"
		cfg.Replay = rf.Choices
	}
	return cfg
}

func replay(t *testing.T, name string, h Harness) {
	startWatchdog()
	rf := readReplay(t)
	plan, err := h.Decode(rf.Property, rf.Plan)
	if err != nil {
		t.Fatalf("decode plan: %v", err)
	}
	cfg := replayCfg(rf)
	cfg.KeepLabels = true
	watchdogCh <- "replay"
	rc, s := RunOne(t, h, rf.Property, plan, cfg)
	watchdogCh <- ""
	res := ReplayResult{Hist: rc.Hist, Stats: rc.Stats, Inconcl: rc.Inconcl}
	if s != nil {
		res.Trace = s.Trace()
	}
	if rc.failure != nil {
		res.Class, res.Witness, res.Detail = rc.failure.Class, rc.failure.Witness, rc.failure.Detail
	}
	if *fOut != "" {
		writeJSON(*fOut, res)
	}
	if d := os.Getenv("VERIF_DUMP_TRACE"); d != "" && s != nil {
		var sb strings.Builder
		for _, c := range s.Trace() {
			fmt.Fprintf(&sb, "%s %d/%d %s\n", c.Kind, c.C, c.N, c.Label)
		}
		_ = os.WriteFile(d+"/replay-trace.txt", []byte(sb.String()), 0o644)
	}
	fmt.Printf("REPLAY class=%q witness=%q\n", res.Class, res.Witness)
}

// minimise shrinks plan and schedule in-process while the same violation
// class persists, then writes the minimised replay file.
func minimise(t *testing.T, name string, h Harness) {
	startWatchdog()
	rf := readReplay(t)
	plan, err := h.Decode(rf.Property, rf.Plan)
	if err != nil {
		t.Fatalf("decode plan: %v", err)
	}
	deadline := time.Now().Add(*fWall)
	if *fWall == 0 {
		deadline = time.Now().Add(60 * time.Second)
	}
	attempts := 0
	// progress file so that the driver can attribute a crash
	try := func(p any, cfg simrt.Config) (*RunCtx, *simrt.Sim, bool) {
		attempts++
		watchdogCh <- "minimise"
		rc, s := RunOne(t, h, rf.Property, p, cfg)
		watchdogCh <- ""
		// the same violation: class and witness (the witness names the situation and is what the list of known
		// findings is matched on; shrinking must not turn an unlisted situation into a listed one)
		return rc, s, rc.failure != nil && rc.failure.Class == rf.Class && (rf.Witness == "" || rc.failure.Witness == rf.Witness)
	}
	cfg := replayCfg(rf)
	rc, s, ok := try(plan, cfg)
	if !ok {
		fmt.Printf("MINIMISE not-reproduced\n")
		if *fOut != "" {
			writeJSON(*fOut, rf)
		}
		return
	}
	bestPlan, bestChoices, bestRC := plan, s.Choices(), rc
	// phase 1: shrink the plan; for each candidate try the recorded schedule, a
	// non-preemptive schedule and a few random ones.
	improved := true
	for improved && time.Now().Before(deadline) {
		improved = false
		for _, cand := range h.Shrink(rf.Property, bestPlan) {
			if time.Now().After(deadline) {
				break
			}
			var cfgs []simrt.Config
			cfgs = append(cfgs, simrt.Config{Strategy: "replay", Replay: bestChoices})
			cfgs = append(cfgs, simrt.Config{Strategy: "replay", Replay: nil})
			for k := 0; k < 6; k++ {
				c := DrawConfig(rf.Seed+uint64(attempts), rf.Property, k)
				cfgs = append(cfgs, c)
			}
			for _, c := range cfgs {
				h.Tune(rf.Property, cand, &c)
				rc2, s2, ok := try(cand, c)
				if ok {
					bestPlan, bestChoices, bestRC = cand, s2.Choices(), rc2
					improved = true
					break
				}
			}
			if improved {
				break
			}
		}
	}
	// phase 2: shrink the schedule: truncate the tail, then zero chunks.
	rcfg := func(ch []int) simrt.Config {
		c := simrt.Config{Strategy: "replay", Replay: ch}
		h.Tune(rf.Property, bestPlan, &c)
		return c
	}
	for time.Now().Before(deadline) {
		// trailing zeros are implicit
		for len(bestChoices) > 0 && bestChoices[len(bestChoices)-1] == 0 {
			bestChoices = bestChoices[:len(bestChoices)-1]
		}
		changed := false
		for chunk := len(bestChoices); chunk >= 1 && time.Now().Before(deadline); chunk /= 2 {
			for i := 0; i+chunk <= len(bestChoices) && time.Now().Before(deadline); i += chunk {
				allZero := true
				for _, v := range bestChoices[i : i+chunk] {
					if v != 0 {
						allZero = false
					}
				}
				if allZero {
					continue
				}
				cand := append([]int(nil), bestChoices...)
				for j := i; j < i+chunk; j++ {
					cand[j] = 0
				}
				rc2, s2, ok := try(bestPlan, rcfg(cand))
				if ok {
					bestChoices, bestRC = s2.Choices(), rc2
					changed = true
				}
			}
		}
		if !changed {
			break
		}
	}
	for len(bestChoices) > 0 && bestChoices[len(bestChoices)-1] == 0 {
		bestChoices = bestChoices[:len(bestChoices)-1]
	}
	// final run with labels for the human-readable trace
	fc := rcfg(bestChoices)
	fc.KeepLabels = true
	rc3, s3, ok := try(bestPlan, fc)
	pj, _ := json.Marshal(bestPlan)
	out := rf
	out.Plan = pj
	out.Choices = bestChoices
	out.Minimised = true
	out.Config = simrt.Config{Strategy: "replay"}
	if ok {
		out.Trace = nonZero(s3.Trace())
		out.Witness, out.Detail = rc3.failure.Witness, rc3.failure.Detail
	} else {
		out.Witness, out.Detail = bestRC.failure.Witness, bestRC.failure.Detail
	}
	if *fOut != "" {
		writeJSON(*fOut, out)
	}
	fmt.Printf("MINIMISE attempts=%d choices=%d\n", attempts, len(bestChoices))
}

func nonZero(tr []simrt.Choice) []simrt.Choice {
	last := -1
	for i, c := range tr {
		if c.C != 0 {
			last = i
		}
	}
	if last+40 < len(tr) {
		tr = tr[:last+40]
	}
	return tr
}

func runtimeStack(buf []byte) int { return runtime.Stack(buf, true) }
