// Package simfs is the disk seam of the simulator: the file-writing packages
// of portbase are rewritten (simify R8) to call these functions instead of
// package os. Every call is a yield point, is logged with its resolved paths,
// may be turned into a crash point ("the process is killed immediately before
// this call") or into an error by the fault plan, and otherwise is passed on
// to the real file system below a scratch directory.
package simfs

import (
	"archive/zip"
	"errors"
	"fmt"
	"io"
	"io/fs"
	"os"
	"path/filepath"
	"strings"
	"sync"
	"syscall"

	"github.com/safing/portbase/verifsim/simrt"
)

// Call is one logged file system call.
type Call struct {
	N      int
	Op     string
	Paths  []string // as given
	Real   []string // with symlinks in the parent directories resolved
	Err    string
	Mut    bool // mutates the file system
	FileID int  // for file methods
}

// Crash is the panic value that unwinds an operation at a crash point.
type Crash struct{ At int }

// ErrCrashed is returned by every call after the crash point (deferred
// clean-up code of the "killed" operation must not have any effect).
var ErrCrashed = errors.New("simfs: process was killed")

// Plan is the fault plan of one execution.
type Plan struct {
	CrashAt int // crash immediately before the call with this number (mutating calls only are numbered); -1 none
	ErrAt   int // inject Errno into this mutating call; -1 none
	Errno   syscall.Errno
	ShortAt int // make this Write call short (writes half, returns io.ErrShortWrite); -1 none
}

var (
	mu      sync.Mutex
	active  bool
	plan    Plan
	calls   []Call
	mutN    int
	crashed bool
	fileSeq int
	tmpDir  string
	faults  map[string]int
)

// Begin starts a recorded execution.
func Begin(p Plan, tmp string) {
	mu.Lock()
	defer mu.Unlock()
	active, plan, calls, mutN, crashed, tmpDir = true, p, nil, 0, false, tmp
	if faults == nil {
		faults = map[string]int{}
	}
}

// End stops recording and returns the log.
func End() (log []Call, mutating int, didCrash bool) {
	mu.Lock()
	defer mu.Unlock()
	active = false
	return calls, mutN, crashed
}

// Faults returns how often each fault kind fired since the last call.
func Faults() map[string]int {
	mu.Lock()
	defer mu.Unlock()
	f := faults
	faults = map[string]int{}
	return f
}

func resolve(p string) string {
	if p == "" {
		return p
	}
	abs, err := filepath.Abs(p)
	if err != nil {
		return p
	}
	// resolve symlinks of the longest existing prefix
	cur := abs
	var rest []string
	for {
		if r, err := filepath.EvalSymlinks(cur); err == nil {
			return filepath.Join(append([]string{r}, rest...)...)
		}
		parent := filepath.Dir(cur)
		if parent == cur {
			return abs
		}
		rest = append([]string{filepath.Base(cur)}, rest...)
		cur = parent
	}
}

// pre logs a call and applies the fault plan; it returns an injected error or nil.
func pre(op string, mut bool, fileID int, paths ...string) error {
	simrt.Yield("simfs#" + op)
	mu.Lock()
	defer mu.Unlock()
	if !active {
		return nil
	}
	if crashed {
		return ErrCrashed
	}
	c := Call{N: len(calls), Op: op, Paths: paths, Mut: mut, FileID: fileID}
	for _, p := range paths {
		c.Real = append(c.Real, resolve(p))
	}
	if mut {
		k := mutN
		mutN++
		if plan.CrashAt == k {
			crashed = true
			faults["crash"]++
			c.Err = "CRASH"
			calls = append(calls, c)
			panic(Crash{At: k})
		}
		if plan.ErrAt == k {
			faults["err-"+plan.Errno.Error()]++
			c.Err = plan.Errno.Error()
			calls = append(calls, c)
			p := ""
			if len(paths) > 0 {
				p = paths[0]
			}
			return &fs.PathError{Op: op, Path: p, Err: plan.Errno}
		}
	}
	calls = append(calls, c)
	return nil
}

func short(k int) bool {
	mu.Lock()
	defer mu.Unlock()
	if active && plan.ShortAt >= 0 && plan.ShortAt == k {
		faults["short-write"]++
		return true
	}
	return false
}

// File wraps *os.File.
type File struct {
	*os.File
	id int
}

func wrap(f *os.File, err error) (*File, error) {
	if err != nil {
		return nil, err
	}
	mu.Lock()
	fileSeq++
	id := fileSeq
	mu.Unlock()
	return &File{File: f, id: id}, nil
}

// ID identifies the open file in the call log.
func (f *File) ID() int { return f.id }

var writeSeq int

func (f *File) Write(b []byte) (int, error) {
	if err := pre("write", true, f.id, f.File.Name()); err != nil {
		return 0, err
	}
	mu.Lock()
	k := writeSeq
	writeSeq++
	mu.Unlock()
	if len(b) > 1 && short(k) {
		n, _ := f.File.Write(b[:len(b)/2])
		return n, io.ErrShortWrite
	}
	return f.File.Write(b)
}

// ReadFrom makes io.Copy go through Write.
func (f *File) ReadFrom(r io.Reader) (int64, error) {
	buf := make([]byte, 64*1024)
	var total int64
	for {
		n, err := r.Read(buf)
		if n > 0 {
			w, werr := f.Write(buf[:n])
			total += int64(w)
			if werr != nil {
				return total, werr
			}
		}
		if err == io.EOF {
			return total, nil
		}
		if err != nil {
			return total, err
		}
	}
}

func (f *File) Sync() error {
	if err := pre("fsync", true, f.id, f.File.Name()); err != nil {
		return err
	}
	return f.File.Sync()
}

func (f *File) Close() error {
	if err := pre("close", false, f.id, f.File.Name()); err != nil {
		_ = f.File.Close()
		return err
	}
	return f.File.Close()
}

func (f *File) Chmod(m os.FileMode) error {
	if err := pre("fchmod", true, f.id, f.File.Name()); err != nil {
		return err
	}
	return f.File.Chmod(m)
}

// ---- package-level functions -------------------------------------------------

func Stat(name string) (os.FileInfo, error) {
	if err := pre("stat", false, 0, name); err != nil {
		return nil, err
	}
	return os.Stat(name)
}

func Lstat(name string) (os.FileInfo, error) {
	if err := pre("lstat", false, 0, name); err != nil {
		return nil, err
	}
	return os.Lstat(name)
}

func Open(name string) (*File, error) {
	if err := pre("open", false, 0, name); err != nil {
		return nil, err
	}
	return wrap(os.Open(name))
}

func OpenFile(name string, flag int, perm os.FileMode) (*File, error) {
	mut := flag&(os.O_WRONLY|os.O_RDWR|os.O_CREATE|os.O_TRUNC|os.O_APPEND) != 0
	if err := pre("openfile", mut, 0, name); err != nil {
		return nil, err
	}
	return wrap(os.OpenFile(name, flag, perm))
}

func Create(name string) (*File, error) {
	if err := pre("create", true, 0, name); err != nil {
		return nil, err
	}
	return wrap(os.Create(name))
}

func TempDir() string {
	mu.Lock()
	defer mu.Unlock()
	if active && tmpDir != "" {
		return tmpDir
	}
	return os.TempDir()
}

func CreateTemp(dir, pattern string) (*File, error) {
	if dir == "" {
		dir = TempDir()
	}
	if err := pre("createtemp", true, 0, filepath.Join(dir, pattern)); err != nil {
		return nil, err
	}
	f, err := wrap(os.CreateTemp(dir, pattern))
	if err == nil {
		noteTemp(f.File.Name())
	}
	return f, err
}

func MkdirTemp(dir, pattern string) (string, error) {
	if dir == "" {
		dir = TempDir()
	}
	if err := pre("mkdirtemp", true, 0, filepath.Join(dir, pattern)); err != nil {
		return "", err
	}
	d, err := os.MkdirTemp(dir, pattern)
	if err == nil {
		noteTemp(d)
	}
	return d, err
}

var temps []string

func noteTemp(p string) {
	mu.Lock()
	temps = append(temps, resolve(p))
	mu.Unlock()
}

// Temps returns (and clears) the temporary names handed out.
func Temps() []string {
	mu.Lock()
	defer mu.Unlock()
	t := temps
	temps = nil
	return t
}

func Mkdir(name string, perm os.FileMode) error {
	if err := pre("mkdir", true, 0, name); err != nil {
		return err
	}
	return os.Mkdir(name, perm)
}

func MkdirAll(name string, perm os.FileMode) error {
	if err := pre("mkdirall", true, 0, name); err != nil {
		return err
	}
	return os.MkdirAll(name, perm)
}

func Remove(name string) error {
	if err := pre("remove", true, 0, name); err != nil {
		return err
	}
	return os.Remove(name)
}

func RemoveAll(name string) error {
	if err := pre("removeall", true, 0, name); err != nil {
		return err
	}
	return os.RemoveAll(name)
}

func Rename(oldp, newp string) error {
	if err := pre("rename", true, 0, oldp, newp); err != nil {
		return err
	}
	return os.Rename(oldp, newp)
}

func ReadFile(name string) ([]byte, error) {
	if err := pre("readfile", false, 0, name); err != nil {
		return nil, err
	}
	return os.ReadFile(name)
}

func WriteFile(name string, data []byte, perm os.FileMode) error {
	// os.WriteFile = open(O_WRONLY|O_CREATE|O_TRUNC) + write + close: three crash points
	f, err := OpenFile(name, os.O_WRONLY|os.O_CREATE|os.O_TRUNC, perm)
	if err != nil {
		return err
	}
	_, err = f.Write(data)
	if err1 := f.Close(); err1 != nil && err == nil {
		err = err1
	}
	return err
}

func Symlink(oldname, newname string) error {
	if err := pre("symlink", true, 0, newname); err != nil {
		return err
	}
	return os.Symlink(oldname, newname)
}

func Readlink(name string) (string, error) {
	if err := pre("readlink", false, 0, name); err != nil {
		return "", err
	}
	return os.Readlink(name)
}

func ReadDir(name string) ([]os.DirEntry, error) {
	if err := pre("readdir", false, 0, name); err != nil {
		return nil, err
	}
	return os.ReadDir(name)
}

func Chmod(name string, mode os.FileMode) error {
	if err := pre("chmod", true, 0, name); err != nil {
		return err
	}
	return os.Chmod(name, mode)
}

// Walk logs every visited path.
func Walk(root string, fn filepath.WalkFunc) error {
	if err := pre("walk", false, 0, root); err != nil {
		return err
	}
	return filepath.Walk(root, func(path string, info os.FileInfo, err error) error {
		if perr := pre("walk-visit", false, 0, path); perr != nil {
			return perr
		}
		return fn(path, info, err)
	})
}

func WalkDir(root string, fn fs.WalkDirFunc) error {
	if err := pre("walkdir", false, 0, root); err != nil {
		return err
	}
	return filepath.WalkDir(root, func(path string, d fs.DirEntry, err error) error {
		if perr := pre("walk-visit", false, 0, path); perr != nil {
			return perr
		}
		return fn(path, d, err)
	})
}

func Abs(p string) (string, error) { return filepath.Abs(p) }

func EvalSymlinks(p string) (string, error) {
	if err := pre("evalsymlinks", false, 0, p); err != nil {
		return "", err
	}
	return filepath.EvalSymlinks(p)
}

// ZipOpenReader logs the archive being opened.
func ZipOpenReader(name string) (*zip.ReadCloser, error) {
	if err := pre("zipopen", false, 0, name); err != nil {
		return nil, err
	}
	return zip.OpenReader(name)
}

func IoutilReadFile(name string) ([]byte, error) { return ReadFile(name) }
func IoutilWriteFile(name string, data []byte, perm os.FileMode) error {
	return WriteFile(name, data, perm)
}

// Describe renders a call for reports.
func (c Call) Describe() string {
	return fmt.Sprintf("#%d %s %s %s", c.N, c.Op, strings.Join(c.Paths, " -> "), c.Err)
}
