// Package simrt is the deterministic-simulation runtime that instrumented
// portbase code (rewritten by tools/simify) and the harnesses call into.
//
// One simulated run = one testing/synctest bubble. The bubble's root
// goroutine is the scheduler; every other goroutine parks at the yield points
// inserted by simify and is released one at a time. With no active simulation
// every function here passes straight through to the real operation.
package simrt

import (
	"cmp"
	"fmt"
	"math/rand/v2"
	"os"
	"reflect"
	"runtime"
	"sort"
	"strings"
	"sync"
	"sync/atomic"
	"time"
	"unsafe"
)

type gstate int

const (
	gNew      gstate = iota // spawned, waiting for first release
	gRunning                // released by the scheduler (may be blocked in a real channel op)
	gParked                 // parked at a yield point: candidate
	gLockWait               // failed TryLock: candidate only after an unlock
	gWgWait                 // waiting for a shadow WaitGroup
	gIdleWait               // AwaitQuiescence
	gDone
)

// G is one simulated goroutine.
type G struct {
	dbgAcq string // debugging aid (VERIF_DEBUG_MAP): where this goroutine last learnt of another one's progress
	ID      int
	Name    string
	state   gstate
	site    string
	wake    chan struct{}
	wg      *sync.WaitGroup // when gWgWait
	prio    int             // PCT priority
	idleFor time.Duration   // AwaitQuiescence: required idle time
	goid    uint64
	vc      vclock // happens-before clock (race tracking only)
}

// Choice is one recorded decision.
type Choice struct {
	Kind  string `json:"k"`           // "sched", "sel", "map"
	N     int    `json:"n"`           // number of options
	C     int    `json:"c"`           // chosen option
	Label string `json:"l,omitempty"` // goroutine+site, for divergence detection / reading
}

// Config of one run.
type Config struct {
	Seed       uint64
	Strategy   string  // random | sticky | pct | timersfirst | timerslast | replay
	PAdvance   float64 // probability of advancing the clock while goroutines are runnable
	PStick     float64 // sticky: probability of continuing the current goroutine
	PCTDepth   int
	Replay     []int // strategy "replay": choices (missing entries = 0)
	MaxSteps   int
	IdleBound  time.Duration // simulated idle time after which the run counts as quiescent
	KeepLabels bool
	MaxAdvIdx  int  // number of clock-advance ladder entries usable while goroutines are runnable (0 = all)
	Race       bool // track happens-before and report unordered map accesses (needs a build made with simify -mappkgs)
}

// Stats of one run.
type Stats struct {
	Steps          int
	Advances       int
	ForcedAdvances int
	Goroutines     int
	Foreign        int
	SelMulti       int // selects with >= 2 ready cases seen by the permuted probe
	LockContended  int
	MaxParked      int
	Switches       int // scheduling steps that changed goroutine
	NoTryLock      int
	SimTime        time.Duration
	Stalled        bool     // clients unfinished but nothing can run
	StepCap        bool     // MaxSteps reached
	StallInfo      string   // who waits where
	Leaked         int      // goroutines not finished at end of run
	WaitersAtEnd   string   // goroutines waiting for locks / wait groups when the run ended
	MapRaces       []string // pairs of map accesses not ordered by happens-before (race tracking only)
}

// Sim is one simulated run.
type Sim struct {
	mu      sync.Mutex
	cfg     Config
	gs      []*G
	byGoid  map[uint64]*G
	rootGo  uint64
	cur     *G // last released goroutine
	start   time.Time
	seq     uint64
	rng     *rand.Rand
	trace   []Choice
	replayI int
	wgs     map[*sync.WaitGroup]*int
	kick    chan struct{}
	adv     bool
	lastAct time.Time
	stats   Stats
	stopped bool
	mainG   *G
	pctChg  map[int]bool
	pctLow  int
	// OnStep, if set, is called by the scheduler after every step while all
	// goroutines are parked; it must not call instrumented code.
	OnStep func()
	// failure raised by harness code (first one wins)
	failure *Failure
	hb      *hbState
}

// Failure is a property violation detected during or after a run.
type Failure struct {
	Class   string `json:"class"`
	Witness string `json:"witness"`
	Detail  string `json:"detail,omitempty"`
}

var active atomic.Pointer[Sim]

var advLadder = []time.Duration{time.Millisecond, 50 * time.Millisecond, time.Second, 30 * time.Second, 5 * time.Minute}

func goid() uint64 {
	var buf [64]byte
	n := runtime.Stack(buf[:], false)
	// "goroutine 123 ["
	var id uint64
	for i := 10; i < n; i++ {
		c := buf[i]
		if c < '0' || c > '9' {
			break
		}
		id = id*10 + uint64(c-'0')
	}
	return id
}

// Active reports whether a simulation is running.
func Active() bool { return active.Load() != nil }

// ctx returns the active sim and the calling simulated goroutine (adopting
// unknown goroutines); (nil, nil) if there is nothing to do.
func ctx() (*Sim, *G) {
	s := active.Load()
	if s == nil {
		return nil, nil
	}
	id := goid()
	s.mu.Lock()
	if id == s.rootGo || s.stopped {
		s.mu.Unlock()
		return nil, nil
	}
	g := s.byGoid[id]
	if g == nil {
		g = s.newG("foreign")
		g.goid = id
		g.state = gRunning
		s.byGoid[id] = g
		s.stats.Foreign++
		if os.Getenv("VERIF_DEBUG_FOREIGN") != "" {
			buf := make([]byte, 4096)
			n := runtime.Stack(buf, false)
			fmt.Fprintf(os.Stderr, "FOREIGN goroutine adopted:\n%s\n", buf[:n])
		}
		s.hbStart(nil, g)
	}
	s.mu.Unlock()
	return s, g
}

func (s *Sim) newG(name string) *G {
	g := &G{ID: len(s.gs) + 1, Name: name, wake: make(chan struct{}, 1), state: gNew}
	g.prio = 1000 + s.rng.IntN(1000000)
	s.gs = append(s.gs, g)
	s.stats.Goroutines++
	return g
}

func (s *Sim) park(g *G, site string, st gstate) {
	s.mu.Lock()
	g.state = st
	g.site = site
	if s.adv {
		select {
		case s.kick <- struct{}{}:
		default:
		}
	}
	s.mu.Unlock()
	<-g.wake
}

// Yield parks the calling goroutine until the scheduler releases it.
func Yield(site string) {
	s, g := ctx()
	if g == nil {
		return
	}
	yieldAt(s, g, site, nil, false)
}

// YieldAtomic is Yield before an atomic operation on the variable addr points to.
func YieldAtomic(site string, addr any, load bool) {
	s, g := ctx()
	if g == nil {
		return
	}
	yieldAt(s, g, site, addr, load)
}

func yieldAt(s *Sim, g *G, site string, addr any, load bool) {
	s.park(g, site, gParked)
	if s.hb != nil {
		switch {
		case isAtomicSite(site):
			// the atomic operation follows: atomics on one variable synchronise with each other (every operation is
			// taken as acquire and release); where the variable is not known, one clock stands for all of them
			var key any = atomicKey{}
			if addr != nil {
				if v := reflect.ValueOf(addr); v.Kind() == reflect.Pointer && !v.IsNil() {
					key = atomicVar{v.UnsafePointer()}
				}
			}
			s.mu.Lock()
			if key == (any)(atomicKey{}) {
				// an operation whose variable is not known may be on any of them
				g.vc = join(g.vc, s.hb.atomicAll)
			} else {
				g.vc = join(g.vc, s.hb.clocks[atomicKey{}])
			}
			s.hbAcquire(g, key)
			if !(load && addr != nil) {
				s.hb.atomicAll = join(s.hb.atomicAll, g.vc)
				s.hbRelease(g, key)
			}
			s.mu.Unlock()
		case strings.HasSuffix(site, "#ctxerr"):
			s.mu.Lock()
			s.hbBarrier(g)
			s.mu.Unlock()
		}
	}
}

// Go replaces a go statement.
func Go(site string, f func()) {
	s := active.Load()
	if s == nil {
		go f()
		return
	}
	id := goid()
	s.mu.Lock()
	if s.stopped {
		s.mu.Unlock()
		go f()
		return
	}
	g := s.newG(site)
	if s.hb != nil {
		if parent := s.byGoid[id]; parent != nil {
			s.hbStart(parent, g)
		} else {
			s.hbStart(nil, g)
		}
	}
	s.mu.Unlock()
	go func() {
		me := goid()
		s.mu.Lock()
		g.goid = me
		s.byGoid[me] = g
		g.site = "start:" + site
		if s.adv {
			select {
			case s.kick <- struct{}{}:
			default:
			}
		}
		s.mu.Unlock()
		<-g.wake
		defer func() {
			s.mu.Lock()
			g.state = gDone
			delete(s.byGoid, me)
			s.mu.Unlock()
		}()
		f()
	}()
	// The new goroutine may run before its creator continues: a scheduling point for the creator (option 0 of the
	// scheduler keeps the creator running, as before).
	s.mu.Lock()
	parent := s.byGoid[id]
	s.mu.Unlock()
	if parent != nil {
		s.park(parent, "spawn:"+site, gParked)
	}
}

// ---- channel helpers -------------------------------------------------------

// Recv is `<-c` followed by a yield.
func Recv[T any](site string, c <-chan T) T {
	ChanRel(c, false)
	v := <-c
	Yield(site)
	ChanAcq(c, false)
	return v
}

// Recv2 is `v, ok := <-c` followed by a yield.
func Recv2[T any](site string, c <-chan T) (T, bool) {
	ChanRel(c, false)
	v, ok := <-c
	Yield(site)
	ChanAcq(c, false)
	return v, ok
}

// Send is `c <- v` followed by a yield.
func Send[T any](site string, c chan<- T, v T) {
	ChanRel(c, true)
	c <- v
	Yield(site)
	ChanAcq(c, true)
}

// Sleep is time.Sleep followed by a yield.
func Sleep(site string, d time.Duration) {
	time.Sleep(d)
	Yield(site)
}

// ZeroOf returns a zero value and false, typed after the channel's element
// type; used by the select rewrite to declare temporaries.
func ZeroOf[T any](c <-chan T) (z T, ok bool) { return }

// ---- locks -----------------------------------------------------------------

type locker interface {
	Lock()
	Unlock()
}
type tryLocker interface{ TryLock() bool }
type rlocker interface {
	RLock()
	RUnlock()
}
type tryRLocker interface{ TryRLock() bool }

// Lock replaces m.Lock().
func Lock(site string, m locker) {
	s, g := ctx()
	if g == nil {
		m.Lock()
		return
	}
	tl, ok := m.(tryLocker)
	if !ok {
		s.mu.Lock()
		s.stats.NoTryLock++
		s.mu.Unlock()
		s.park(g, site, gParked)
		m.Lock()
		if s.hb != nil {
			s.mu.Lock()
			k := s.hbLockKey(m)
			s.hbAcquire(g, k)
			s.hbAcquireR(g, k)
			s.mu.Unlock()
		}
		return
	}
	s.park(g, site, gParked)
	for !tl.TryLock() {
		s.mu.Lock()
		s.stats.LockContended++
		s.mu.Unlock()
		s.park(g, site, gLockWait)
	}
	if s.hb != nil {
		s.mu.Lock()
		k := s.hbLockKey(m)
		s.hbAcquire(g, k)
		s.hbAcquireR(g, k)
		s.mu.Unlock()
	}
}

// Unlock replaces m.Unlock().
func Unlock(site string, m locker) {
	if s := active.Load(); s != nil && s.hb != nil {
		if _, g := ctx(); g != nil {
			s.mu.Lock()
			s.hbRelease(g, s.hbLockKey(m))
			s.mu.Unlock()
		}
	}
	m.Unlock()
	wakeLockWaiters()
}

// RLock replaces m.RLock().
func RLock(site string, m rlocker) {
	s, g := ctx()
	if g == nil {
		m.RLock()
		return
	}
	tl, ok := m.(tryRLocker)
	if !ok {
		s.park(g, site, gParked)
		m.RLock()
		if s.hb != nil {
			s.mu.Lock()
			s.hbAcquire(g, s.hbLockKey(m))
			s.mu.Unlock()
		}
		return
	}
	s.park(g, site, gParked)
	for !tl.TryRLock() {
		s.mu.Lock()
		s.stats.LockContended++
		s.mu.Unlock()
		s.park(g, site, gLockWait)
	}
	if s.hb != nil {
		s.mu.Lock()
		s.hbAcquire(g, s.hbLockKey(m))
		s.mu.Unlock()
	}
}

// RUnlock replaces m.RUnlock().
func RUnlock(site string, m rlocker) {
	if s := active.Load(); s != nil && s.hb != nil {
		if _, g := ctx(); g != nil {
			s.mu.Lock()
			s.hbReleaseR(g, s.hbLockKey(m))
			s.mu.Unlock()
		}
	}
	m.RUnlock()
	wakeLockWaiters()
}

func wakeLockWaiters() {
	s := active.Load()
	if s == nil {
		return
	}
	s.mu.Lock()
	for _, g := range s.gs {
		if g.state == gLockWait {
			g.state = gParked
		}
	}
	s.mu.Unlock()
}

// ---- WaitGroup shadow ------------------------------------------------------

// WgAdd replaces wg.Add(n).
func WgAdd(site string, wg *sync.WaitGroup, n int) {
	s := active.Load()
	if s == nil {
		wg.Add(n)
		return
	}
	s.mu.Lock()
	if s.stopped {
		s.mu.Unlock()
		return
	}
	p := s.wgs[wg]
	if p == nil {
		p = new(int)
		s.wgs[wg] = p
	}
	if s.hb != nil {
		if g := s.byGoid[goid()]; g != nil {
			s.hbRelease(g, unsafe.Pointer(wg))
		}
	}
	*p += n
	if *p < 0 {
		s.mu.Unlock()
		panic("sync: negative WaitGroup counter")
	}
	if *p == 0 {
		for _, g := range s.gs {
			if g.state == gWgWait && g.wg == wg {
				g.state = gParked
			}
		}
	}
	s.mu.Unlock()
}

// WgDone replaces wg.Done().
func WgDone(site string, wg *sync.WaitGroup) { WgAdd(site, wg, -1) }

// WgWait replaces wg.Wait().
func WgWait(site string, wg *sync.WaitGroup) {
	s, g := ctx()
	if g == nil {
		if active.Load() == nil {
			wg.Wait()
		}
		return
	}
	s.park(g, site, gParked)
	for {
		s.mu.Lock()
		p := s.wgs[wg]
		if p == nil || *p == 0 {
			s.hbAcquire(g, unsafe.Pointer(wg))
			s.mu.Unlock()
			return
		}
		g.wg = wg
		s.mu.Unlock()
		s.park(g, site, gWgWait)
	}
}

// ---- select / map order ----------------------------------------------------

// SelectOrder returns the order in which the n communication clauses of a
// select are probed.
func SelectOrder(site string, n int) []int {
	order := make([]int, n)
	for i := range order {
		order[i] = i
	}
	s, g := ctx()
	if g == nil || n < 2 {
		return order
	}
	s.mu.Lock()
	r := s.choose("sel", n, func() string { return fmt.Sprintf("g%d %s", g.ID, site) }, nil)
	s.mu.Unlock()
	for i := range order {
		order[i] = (r + i) % n
	}
	return order
}

// SelectReady is called by the select rewrite with the number of clauses the
// non-blocking probe found ready (statistics only).
func SelectReady(n int) {
	if n < 2 {
		return
	}
	if s := active.Load(); s != nil {
		s.mu.Lock()
		s.stats.SelMulti++
		s.mu.Unlock()
	}
}

// MapKeys returns the keys of m in an order chosen by the simulator (sorted
// when no simulation is active).
func MapKeys[M ~map[K]V, K cmp.Ordered, V any](site string, m M) []K {
	keys := make([]K, 0, len(m))
	for k := range m {
		keys = append(keys, k)
	}
	sort.Slice(keys, func(i, j int) bool { return cmp.Less(keys[i], keys[j]) })
	s, g := ctx()
	if g != nil && s.hb != nil && m != nil {
		mapAccessed(s, mapPtr(m), func() any { return m }, false, strings.TrimSuffix(site, "#maprange"))
	}
	if g == nil || len(keys) < 2 {
		return keys
	}
	s.mu.Lock()
	c := s.choose("map", 1<<16, func() string { return fmt.Sprintf("g%d %s", g.ID, site) }, nil)
	s.mu.Unlock()
	if c != 0 {
		r := rand.New(rand.NewPCG(uint64(c), 0x9e3779b97f4a7c15))
		r.Shuffle(len(keys), func(i, j int) { keys[i], keys[j] = keys[j], keys[i] })
	}
	return keys
}

// ---- services for harness code ---------------------------------------------

// Seq returns the next global event sequence number.
func Seq() uint64 {
	s := active.Load()
	if s == nil {
		return 0
	}
	s.mu.Lock()
	s.seq++
	v := s.seq
	s.mu.Unlock()
	return v
}

// Now returns the simulated time since the start of the run.
func Now() time.Duration {
	s := active.Load()
	if s == nil {
		return 0
	}
	return time.Since(s.start)
}

// GID returns the simulated goroutine id of the caller (0 if none).
func GID() int {
	_, g := ctx()
	if g == nil {
		return 0
	}
	return g.ID
}

// Fail records a violation (the first one wins).
func Fail(class, witness, detail string) {
	s := active.Load()
	if s == nil {
		return
	}
	s.mu.Lock()
	if s.failure == nil {
		s.failure = &Failure{Class: class, Witness: witness, Detail: detail}
	}
	s.mu.Unlock()
}

// Failed reports whether a violation has been recorded.
func Failed() bool {
	s := active.Load()
	if s == nil {
		return false
	}
	s.mu.Lock()
	defer s.mu.Unlock()
	return s.failure != nil
}

// AwaitQuiescence parks the caller until no goroutine can run and `idle` of
// simulated time has passed without any activity. Returns false if the step
// cap was hit first.
func AwaitQuiescence(idle time.Duration) bool {
	s, g := ctx()
	if g == nil {
		return true
	}
	s.mu.Lock()
	g.idleFor = idle
	if idle <= 0 || idle > s.cfg.IdleBound {
		g.idleFor = s.cfg.IdleBound
	}
	s.mu.Unlock()
	s.park(g, "quiesce", gIdleWait)
	s.mu.Lock()
	defer s.mu.Unlock()
	return !s.stats.StepCap
}

// ---- choices ---------------------------------------------------------------

// choose must be called with s.mu held. strat may be nil (uniform).
func (s *Sim) choose(kind string, n int, label func() string, strat func() int) int {
	var c int
	if s.cfg.Strategy == "replay" {
		if s.replayI < len(s.cfg.Replay) {
			c = s.cfg.Replay[s.replayI]
		}
		s.replayI++
		if c < 0 || c >= n {
			c = 0
		}
	} else if strat != nil {
		c = strat()
	} else {
		// uniform, but biased to the default so that most selects/maps keep
		// source order in some runs
		if s.rng.IntN(4) == 0 {
			c = 0
		} else {
			c = s.rng.IntN(n)
		}
	}
	ch := Choice{Kind: kind, N: n, C: c}
	if s.cfg.KeepLabels {
		ch.Label = label()
		if traceTime {
			ch.Label = time.Since(s.start).String() + " " + ch.Label
		}
	}
	s.trace = append(s.trace, ch)
	return c
}

// traceTime (VERIF_TRACE_TIME=1, debugging aid): decision labels carry the simulated time
var traceTime = os.Getenv("VERIF_TRACE_TIME") == "1"

// ---- the scheduler ---------------------------------------------------------

// New creates a run. Must be called inside the synctest bubble, on the
// bubble's root goroutine.
func New(cfg Config) *Sim {
	if cfg.MaxSteps == 0 {
		cfg.MaxSteps = 200000
	}
	if cfg.IdleBound == 0 {
		cfg.IdleBound = 3 * time.Hour
	}
	s := &Sim{
		cfg:    cfg,
		byGoid: map[uint64]*G{},
		wgs:    map[*sync.WaitGroup]*int{},
		kick:   make(chan struct{}, 1),
		rng:    rand.New(rand.NewPCG(cfg.Seed, 0x5851f42d4c957f2d)),
		start:  time.Now(),
		pctChg: map[int]bool{},
	}
	if cfg.Strategy == "pct" {
		for i := 0; i < cfg.PCTDepth; i++ {
			s.pctChg[s.rng.IntN(3000)] = true
		}
	}
	s.rootGo = goid()
	s.hbInit()
	return s
}

func (s *Sim) candidates() []*G {
	var c []*G
	if s.cur != nil && s.cur.state == gParked {
		c = append(c, s.cur)
	}
	for _, g := range s.gs {
		if g != s.cur && (g.state == gParked || g.state == gNew) {
			c = append(c, g)
		}
	}
	return c
}

func (s *Sim) label(g *G) string { return fmt.Sprintf("g%d@%s", g.ID, g.site) }

// Run executes main as the first simulated goroutine and schedules until main
// has returned and the system is quiescent, or a bound is hit.
func (s *Sim) Run(main func()) {
	active.Store(s)
	defer func() {
		s.mu.Lock()
		s.stopped = true
		s.stats.SimTime = time.Since(s.start)
		s.stats.WaitersAtEnd = s.describeWaiters()
		for _, g := range s.gs {
			if g.state != gDone {
				s.stats.Leaked++
			}
		}
		s.mu.Unlock()
		active.Store(nil)
	}()
	mainDone := false
	s.mu.Lock()
	s.mainG = s.newG("main")
	mg := s.mainG
	s.hbStart(nil, mg)
	s.mu.Unlock()
	go func() {
		me := goid()
		s.mu.Lock()
		mg.goid = me
		s.byGoid[me] = mg
		s.mu.Unlock()
		<-mg.wake
		defer func() {
			s.mu.Lock()
			mg.state = gDone
			delete(s.byGoid, me)
			mainDone = true
			s.mu.Unlock()
		}()
		main()
	}()
	s.lastAct = time.Now()
	for {
		syncWait()
		if s.OnStep != nil {
			s.OnStep()
		}
		s.mu.Lock()
		if s.stats.Steps >= s.cfg.MaxSteps {
			s.stats.StepCap = true
			// release a quiescence waiter so that main can finish its checks
			for _, g := range s.gs {
				if g.state == gIdleWait {
					g.state = gParked
				}
			}
			if s.stats.Steps >= s.cfg.MaxSteps+5000 || mainDone {
				s.mu.Unlock()
				return
			}
		}
		cands := s.candidates()
		if len(cands) > s.stats.MaxParked {
			s.stats.MaxParked = len(cands)
		}
		if len(cands) == 0 {
			// nothing runnable: jump the clock to the next event
			idle := time.Since(s.lastAct)
			var iw *G
			for _, g := range s.gs {
				if g.state == gIdleWait && (iw == nil || g.idleFor < iw.idleFor) {
					iw = g
				}
			}
			if iw != nil && idle >= iw.idleFor {
				// quiescent for as long as the waiter asked for
				iw.state = gParked
				s.lastAct = time.Now()
				s.mu.Unlock()
				continue
			}
			if idle >= s.cfg.IdleBound {
				if !mainDone {
					s.stats.Stalled = true
					s.stats.StallInfo = s.describeWaiters()
				}
				s.mu.Unlock()
				return
			}
			if mainDone && s.allDone() {
				s.mu.Unlock()
				return
			}
			s.stats.ForcedAdvances++
			step := s.cfg.IdleBound - idle
			if iw != nil && iw.idleFor-idle < step {
				step = iw.idleFor - idle
			}
			s.mu.Unlock()
			s.advance(step)
			continue
		}
		s.lastAct = time.Now()
		nAdv := 0
		if s.cfg.PAdvance > 0 || s.cfg.Strategy == "replay" {
			nAdv = len(advLadder)
			if s.cfg.MaxAdvIdx > 0 && s.cfg.MaxAdvIdx < nAdv {
				nAdv = s.cfg.MaxAdvIdx
			}
		}
		n := len(cands) + nAdv
		c := s.choose("sched", n, func() string {
			var sb strings.Builder
			for i, g := range cands {
				if i > 0 {
					sb.WriteByte(' ')
				}
				sb.WriteString(s.label(g))
			}
			return sb.String()
		}, func() int { return s.strategyPick(cands, nAdv) })
		s.stats.Steps++
		if c >= len(cands) {
			d := advLadder[c-len(cands)]
			s.stats.Advances++
			s.mu.Unlock()
			s.advance(d)
			continue
		}
		g := cands[c]
		if g != s.cur {
			s.stats.Switches++
		}
		s.cur = g
		g.state = gRunning
		s.mu.Unlock()
		g.wake <- struct{}{}
	}
}

func (s *Sim) allDone() bool {
	for _, g := range s.gs {
		if g.state != gDone {
			return false
		}
	}
	return true
}

func (s *Sim) describeWaiters() string {
	var sb strings.Builder
	for _, g := range s.gs {
		switch g.state {
		case gLockWait:
			fmt.Fprintf(&sb, "g%d lock@%s; ", g.ID, g.site)
		case gWgWait:
			fmt.Fprintf(&sb, "g%d wg@%s; ", g.ID, g.site)
		case gRunning:
			fmt.Fprintf(&sb, "g%d blocked-after@%s; ", g.ID, g.site)
		}
	}
	return sb.String()
}

// advance lets simulated time pass until the next event that parks a
// goroutine, at most d.
func (s *Sim) advance(d time.Duration) {
	s.mu.Lock()
	s.adv = true
	select {
	case <-s.kick:
	default:
	}
	s.mu.Unlock()
	t := time.NewTimer(d)
	select {
	case <-t.C:
	case <-s.kick:
	}
	t.Stop()
	s.mu.Lock()
	s.adv = false
	s.mu.Unlock()
}

func (s *Sim) strategyPick(cands []*G, nAdv int) int {
	nc := len(cands)
	if nAdv > 0 && s.rng.Float64() < s.cfg.PAdvance {
		// smaller steps more likely
		k := 0
		for k < nAdv-1 && s.rng.IntN(2) == 0 {
			k++
		}
		return nc + k
	}
	switch s.cfg.Strategy {
	case "sticky":
		if s.cur != nil && cands[0] == s.cur && s.rng.Float64() < s.cfg.PStick {
			return 0
		}
		return s.rng.IntN(nc)
	case "pct":
		if s.pctChg[s.stats.Steps] && s.cur != nil {
			s.pctLow++
			s.cur.prio = -s.pctLow
		}
		best := 0
		for i, g := range cands {
			if g.prio > cands[best].prio {
				best = i
			}
		}
		return best
	default:
		return s.rng.IntN(nc)
	}
}

// Trace returns the recorded decisions.
func (s *Sim) Trace() []Choice { return s.trace }

// Choices returns just the chosen indices.
func (s *Sim) Choices() []int {
	out := make([]int, len(s.trace))
	for i, c := range s.trace {
		out[i] = c.C
	}
	return out
}

// Stats returns the run statistics.
func (s *Sim) Stats() Stats { return s.stats }

// Failure returns the recorded violation, if any.
func (s *Sim) Failure() *Failure { return s.failure }

// MainDone reports whether the main goroutine returned.
func (s *Sim) MainDone() bool {
	s.mu.Lock()
	defer s.mu.Unlock()
	return s.mainG != nil && s.mainG.state == gDone
}

// SendVal returns v typed as the element type of c (used by the select rewrite).
func SendVal[T any](c chan<- T, v T) T { return v }

// ZeroSend returns a zero value typed after the element type of a channel
// that is sent on (used by the select rewrite to declare temporaries).
func ZeroSend[T any](c chan<- T) (z T) { return }
