package simrt

// Happens-before tracking and map-access race prediction.
//
// In the simulation only one goroutine executes application code at a time, so
// the Go runtime's own "concurrent map read and map write" abort can never
// fire. This file predicts it instead: every synchronisation operation that
// goes through simrt (go, channel operations, locks, wait groups, atomics)
// updates vector clocks, and every instrumented map access is checked against
// the previous accesses of the same map. Two accesses of which at least one
// writes and which are not ordered by happens-before can overlap in a real
// execution, where the runtime aborts the process.
//
// The tracking errs towards MORE happens-before edges, never fewer: whatever it
// cannot attribute exactly (a value received from a channel nobody in the
// simulation sent on, calls into context, ...) is treated as a barrier that
// orders everything so far before it. Spurious edges can hide a race; they
// cannot invent one.

import (
	"fmt"
	"os"
	"reflect"
	"strings"
	"sync"
	"unsafe"
)

type vclock []uint32

func (a vclock) clone() vclock { return append(vclock(nil), a...) }

func join(a, b vclock) vclock {
	if len(b) > len(a) {
		a = append(a, make(vclock, len(b)-len(a))...)
	}
	for i, v := range b {
		if v > a[i] {
			a[i] = v
		}
	}
	return a
}

func (a vclock) at(i int) uint32 {
	if i < len(a) {
		return a[i]
	}
	return 0
}

type mapAccess struct {
	g     int
	epoch uint32
	pos   string
}

type mapShadow struct {
	keep  any // keeps the map alive so that its address is not reused within the run
	write mapAccess
	reads map[int]mapAccess
}

type hbState struct {
	clocks    map[any]vclock // release clocks per synchronisation object
	rclocks   map[any]vclock // read-unlock clocks of RW locks
	global    vclock         // barrier releases: joined by every acquire
	atomicAll vclock         // every release by an atomic operation (for operations whose variable is not known)
	maps      map[unsafe.Pointer]*mapShadow
	sent      map[any]bool // channels on which a simulated goroutine has sent or which it has closed
	seen      map[string]bool
	lockOff   map[reflect.Type][]int
}

// RaceBuild is set (by a file simify generates) when the build carries the happens-before calls around channel
// operations and the map access reports; Config.Race has no effect otherwise.
var RaceBuild bool

var debugMap = os.Getenv("VERIF_DEBUG_MAP")

type atomicKey struct{}

// atomicVar keys the clock of one atomically accessed variable.
type atomicVar struct{ p unsafe.Pointer }

func (s *Sim) hbInit() {
	if !RaceBuild || !s.cfg.Race {
		return
	}
	s.hb = &hbState{clocks: map[any]vclock{}, rclocks: map[any]vclock{}, maps: map[unsafe.Pointer]*mapShadow{}, sent: map[any]bool{}, seen: map[string]bool{}, lockOff: map[reflect.Type][]int{}}
}

// all callers hold s.mu

func (s *Sim) hbTick(g *G) {
	for len(g.vc) <= g.ID {
		g.vc = append(g.vc, 0)
	}
	g.vc[g.ID]++
}

func (s *Sim) hbStart(parent, child *G) {
	if s.hb == nil {
		return
	}
	if parent != nil {
		child.vc = parent.vc.clone()
		s.hbTick(parent)
	} else {
		// unknown creator: everything so far happens before the new goroutine
		for _, o := range s.gs {
			child.vc = join(child.vc, o.vc)
		}
	}
	s.hbTick(child)
}

func (s *Sim) hbAcquire(g *G, key any) {
	if s.hb == nil || g == nil {
		return
	}
	var before vclock
	if debugMap != "" {
		before = g.vc.clone()
	}
	g.vc = join(g.vc, s.hb.clocks[key])
	g.vc = join(g.vc, s.hb.global)
	if debugMap != "" {
		for i := range g.vc {
			if i != g.ID && g.vc[i] > before.at(i) {
				g.dbgAcq = fmt.Sprintf("%s key=%T%v (g%d->%d)", g.site, key, key, i, g.vc[i])
			}
		}
	}
}

func (s *Sim) hbAcquireR(g *G, key any) {
	if s.hb == nil || g == nil {
		return
	}
	g.vc = join(g.vc, s.hb.rclocks[key])
}

func (s *Sim) hbRelease(g *G, key any) {
	if s.hb == nil || g == nil {
		return
	}
	s.hb.clocks[key] = join(s.hb.clocks[key], g.vc)
	s.hbTick(g)
}

func (s *Sim) hbReleaseR(g *G, key any) {
	if s.hb == nil || g == nil {
		return
	}
	s.hb.rclocks[key] = join(s.hb.rclocks[key], g.vc)
	s.hbTick(g)
}

// hbBarrier orders everything every goroutine has done so far before the caller's next step and the caller's past
// before every later acquire of anyone.
func (s *Sim) hbBarrier(g *G) {
	if s.hb == nil || g == nil {
		return
	}
	for _, o := range s.gs {
		g.vc = join(g.vc, o.vc)
	}
	s.hb.global = join(s.hb.global, g.vc)
	s.hbTick(g)
}

// lockKey maps the value handed to Lock/Unlock to the mutex it ends up locking, so that `r.Lock()` through an
// interface and `r.Mutex.Lock()` on the embedded field meet on one key.
func (s *Sim) lockKey(m any) any {
	switch m.(type) {
	case *sync.Mutex, *sync.RWMutex:
		return m
	}
	v := reflect.ValueOf(m)
	if v.Kind() != reflect.Pointer || v.IsNil() || v.Elem().Kind() != reflect.Struct {
		return m
	}
	t := v.Elem().Type()
	path, ok := s.hb.lockOff[t]
	if !ok {
		path = findMutex(t, 0)
		s.hb.lockOff[t] = path
	}
	if path == nil {
		return m
	}
	f := v.Elem()
	for _, i := range path {
		if f.Kind() == reflect.Pointer {
			if f.IsNil() {
				return m
			}
			f = f.Elem()
		}
		f = f.Field(i)
	}
	if f.CanAddr() {
		return f.Addr().UnsafePointer()
	}
	return m
}

var (
	mutexType   = reflect.TypeOf(sync.Mutex{})
	rwMutexType = reflect.TypeOf(sync.RWMutex{})
)

// findMutex returns the index path of the embedded sync.Mutex / sync.RWMutex whose methods t promotes.
func findMutex(t reflect.Type, depth int) []int {
	if depth > 4 || t.Kind() != reflect.Struct {
		return nil
	}
	for i := 0; i < t.NumField(); i++ {
		f := t.Field(i)
		if !f.Anonymous {
			continue
		}
		ft := f.Type
		if ft == mutexType || ft == rwMutexType {
			return []int{i}
		}
	}
	for i := 0; i < t.NumField(); i++ {
		f := t.Field(i)
		if !f.Anonymous {
			continue
		}
		ft := f.Type
		if ft.Kind() == reflect.Pointer {
			ft = ft.Elem()
		}
		if p := findMutex(ft, depth+1); p != nil {
			return append([]int{i}, p...)
		}
	}
	return nil
}

func (s *Sim) hbLockKey(m any) any {
	if s.hb == nil {
		return nil
	}
	k := s.lockKey(m)
	if p, ok := k.(*sync.Mutex); ok {
		return unsafe.Pointer(p)
	}
	if p, ok := k.(*sync.RWMutex); ok {
		return unsafe.Pointer(p)
	}
	return k
}

func chanKey(c any) any {
	v := reflect.ValueOf(c)
	if v.Kind() != reflect.Chan || v.IsNil() {
		return nil
	}
	return v.UnsafePointer()
}

// ChanRel is called before a channel operation on c; sends says whether the operation is a send or a close.
func ChanRel(c any, sends bool) {
	s := active.Load()
	if s == nil || s.hb == nil {
		return
	}
	k := chanKey(c)
	if k == nil {
		return
	}
	_, g := ctx()
	if g == nil {
		return
	}
	s.mu.Lock()
	s.hbRelease(g, k)
	if sends {
		s.hb.sent[k] = true
	}
	s.mu.Unlock()
}

// ChanAcq is called after a completed channel operation on c (after the yield that follows it); sent says
// whether the operation was a send.
func ChanAcq(c any, sent bool) {
	s := active.Load()
	if s == nil || s.hb == nil {
		return
	}
	_, g := ctx()
	if g == nil {
		return
	}
	k := chanKey(c)
	s.mu.Lock()
	switch {
	case sent:
		if k != nil {
			s.hbAcquire(g, k)
		}
	case k == nil || !s.hb.sent[k]:
		// nobody in the simulation has sent on or closed this channel: the peer is outside (a timer, a context, a
		// library goroutine), or the channel is nil
		s.hbBarrier(g)
	default:
		s.hbAcquire(g, k)
	}
	s.mu.Unlock()
}

// Barrier is inserted where synchronisation happens that the simulator does not see in detail.
func Barrier() {
	s := active.Load()
	if s == nil || s.hb == nil {
		return
	}
	_, g := ctx()
	if g == nil {
		return
	}
	s.mu.Lock()
	s.hbBarrier(g)
	s.mu.Unlock()
}

func mapPtr[M ~map[K]V, K comparable, V any](m M) unsafe.Pointer {
	return *(*unsafe.Pointer)(unsafe.Pointer(&m))
}

// MapR is inserted before a statement that reads map m.
func MapR[M ~map[K]V, K comparable, V any](m M, pos string) {
	s := active.Load()
	if s == nil || s.hb == nil || m == nil {
		return
	}
	mapAccessed(s, mapPtr(m), func() any { return m }, false, pos)
}

// MapW is inserted before a statement that writes map m.
func MapW[M ~map[K]V, K comparable, V any](m M, pos string) {
	s := active.Load()
	if s == nil || s.hb == nil || m == nil {
		return
	}
	mapAccessed(s, mapPtr(m), func() any { return m }, true, pos)
}

// ObjR / ObjW report a read / a modification of a container object (a *list.List) identified by its pointer.
func ObjR(obj any, pos string) { objAccessed(obj, false, pos) }
func ObjW(obj any, pos string) { objAccessed(obj, true, pos) }

func objAccessed(obj any, write bool, pos string) {
	s := active.Load()
	if s == nil || s.hb == nil {
		return
	}
	v := reflect.ValueOf(obj)
	if v.Kind() != reflect.Pointer || v.IsNil() {
		return
	}
	mapAccessed(s, v.UnsafePointer(), func() any { return obj }, write, pos)
}

func mapAccessed(s *Sim, p unsafe.Pointer, keep func() any, write bool, pos string) {
	id := goid()
	s.mu.Lock()
	defer s.mu.Unlock()
	if s.stopped {
		return
	}
	g := s.byGoid[id]
	sh := s.hb.maps[p]
	if g == nil {
		// an access from outside the simulation: forget the history of this map rather than guess
		delete(s.hb.maps, p)
		return
	}
	if sh == nil {
		sh = &mapShadow{keep: keep(), reads: map[int]mapAccess{}}
		s.hb.maps[p] = sh
	}
	me := mapAccess{g: g.ID, epoch: g.vc.at(g.ID), pos: pos}
	if debugMap != "" && strings.Contains(pos, debugMap) {
		if f, err := os.OpenFile(fmt.Sprintf("/var/tmp/hbdebug.%d.log", os.Getpid()), os.O_APPEND|os.O_CREATE|os.O_WRONLY, 0o644); err == nil {
			fmt.Fprintf(f, "HBDEBUG g%d write=%v pos=%s vc=%v lastw=%+v reads=%v lastacq=%s\n", g.ID, write, pos, g.vc, sh.write, sh.reads, g.dbgAcq)
			f.Close()
		}
	}
	unordered := func(a mapAccess) bool { return a.g != 0 && a.g != g.ID && a.epoch > g.vc.at(a.g) }
	if unordered(sh.write) {
		s.hbRace(sh.write, true, me, write)
	}
	if write {
		for _, r := range sh.reads {
			if unordered(r) {
				s.hbRace(r, false, me, true)
			}
		}
		sh.write = me
		sh.reads = map[int]mapAccess{}
	} else {
		sh.reads[g.ID] = me
	}
}

func (s *Sim) hbRace(a mapAccess, aw bool, b mapAccess, bw bool) {
	kind := func(w bool) string {
		if w {
			return "write"
		}
		return "read"
	}
	x, y := kind(aw)+" at "+a.pos, kind(bw)+" at "+b.pos
	if y < x {
		x, y = y, x
	}
	key := x + " / " + y
	if s.hb.seen[key] {
		return
	}
	s.hb.seen[key] = true
	s.stats.MapRaces = append(s.stats.MapRaces, key)
}

// OnceDo replaces once.Do(f).
func OnceDo(site string, once *sync.Once, f func()) {
	s, g := ctx()
	if g != nil && s.hb != nil {
		s.mu.Lock()
		s.hbAcquire(g, unsafe.Pointer(once))
		s.mu.Unlock()
	}
	once.Do(f)
	if g != nil && s.hb != nil {
		s.mu.Lock()
		s.hbRelease(g, unsafe.Pointer(once))
		s.hbAcquire(g, unsafe.Pointer(once))
		s.mu.Unlock()
	}
}

func isAtomicSite(site string) bool { return strings.HasSuffix(site, "#atomic") }

func (s *Sim) hbDescribe() string {
	if s.hb == nil {
		return ""
	}
	return fmt.Sprintf("%d sync objects, %d maps", len(s.hb.clocks), len(s.hb.maps))
}
