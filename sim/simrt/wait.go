package simrt

import "testing/synctest"

func syncWait() { synctest.Wait() }
