package fssim

import (
	"archive/zip"
	"fmt"
	"math/rand/v2"
	"os"
	"path/filepath"
	"sort"
	"strings"

	"github.com/safing/portbase/database/query"
	"github.com/safing/portbase/database/record"
	"github.com/safing/portbase/database/storage"
	"github.com/safing/portbase/database/storage/fstree"
	"github.com/safing/portbase/formats/dsd"
	"github.com/safing/portbase/updater"
	"github.com/safing/portbase/utils"
	"github.com/safing/portbase/verifsim/simfs"
	"github.com/safing/portbase/verifsim/simkit"
)

// C18Plan: hostile names against one component.
type C18Plan struct {
	Comp  string     `json:"comp"`  // fstree dirstruct scan unpack
	Depth int        `json:"depth"` // depth of the root below the sandbox
	Names [][]string `json:"names"` // each name as segments
	Lead  []bool     `json:"lead"`  // leading separator
	Trail []bool     `json:"trail"`
	Late  bool       `json:"late,omitempty"` // fstree: the storage is used again after its Shutdown; scan/unpack: the storage directory is a child of a larger directory structure (as with dataRoot.ChildDir("updates"))
	Ops   []string   `json:"ops"` // per name: get put delete query | abs rel reldir | scan | entry
}

const rootName = "data"

var segPool = []string{"a", "b", "..", "..", ".", "", rootName, rootName + "-other", rootName + "2", "x", "pkg_v1-0-0-beta", "tmp", "DATA", "A", `..\..\..\x`, `..\` + rootName + `-other\y`, `a\b`}

func genC18(rng *rand.Rand, tier string) *C18Plan {
	p := &C18Plan{Comp: []string{"fstree", "fstree", "dirstruct", "scan", "unpack"}[rng.IntN(5)], Depth: 1 + rng.IntN(4)}
	defer func() { p.Late = rng.IntN(3) == 0 }()
	n := 1 + rng.IntN(12)
	for i := 0; i < n; i++ {
		k := 1 + rng.IntN(6)
		var segs []string
		for j := 0; j < k; j++ {
			segs = append(segs, segPool[rng.IntN(len(segPool))])
		}
		p.Names = append(p.Names, segs)
		p.Lead = append(p.Lead, rng.IntN(5) == 0)
		p.Trail = append(p.Trail, rng.IntN(6) == 0)
		switch p.Comp {
		case "fstree":
			p.Ops = append(p.Ops, []string{"get", "put", "delete", "query", "query", "querygone", "getmeta"}[rng.IntN(7)])
		case "dirstruct":
			p.Ops = append(p.Ops, []string{"abs", "rel", "reldir", "child", "child2"}[rng.IntN(5)])
		case "scan":
			p.Ops = append(p.Ops, []string{"scan", "scan", "scanrel"}[rng.IntN(3)])
		default:
			p.Ops = append(p.Ops, "entry")
		}
	}
	return p
}

func shrinkC18(p *C18Plan) []any {
	var out []any
	for i := range p.Names {
		if len(p.Names) > 1 {
			q := *p
			q.Names = append(append([][]string(nil), p.Names[:i]...), p.Names[i+1:]...)
			q.Lead = append(append([]bool(nil), p.Lead[:i]...), p.Lead[i+1:]...)
			q.Trail = append(append([]bool(nil), p.Trail[:i]...), p.Trail[i+1:]...)
			q.Ops = append(append([]string(nil), p.Ops[:i]...), p.Ops[i+1:]...)
			out = append(out, &q)
		}
	}
	for i, segs := range p.Names {
		for j := range segs {
			if len(segs) > 1 {
				q := *p
				q.Names = append([][]string(nil), p.Names...)
				q.Names[i] = append(append([]string(nil), segs[:j]...), segs[j+1:]...)
				out = append(out, &q)
			}
		}
	}
	if p.Depth > 1 {
		q := *p
		q.Depth = 1
		out = append(out, &q)
	}
	return out
}

func joinName(segs []string, lead, trail bool) string {
	s := strings.Join(segs, "/")
	if lead {
		s = "/" + s
	}
	if trail {
		s += "/"
	}
	return s
}

// snapshot lists everything below dir except what is below skip.
func snapshot(dir, skip string) map[string]string {
	out := map[string]string{}
	_ = filepath.Walk(dir, func(path string, info os.FileInfo, err error) error {
		if err != nil {
			return nil
		}
		if path == skip {
			return filepath.SkipDir
		}
		rel, _ := filepath.Rel(dir, path)
		if info.IsDir() {
			out[rel] = "dir"
			return nil
		}
		b, _ := os.ReadFile(path)
		out[rel] = fmt.Sprintf("%v:%d:%x", info.Mode().Perm(), len(b), simpleHash(b))
		return nil
	})
	return out
}

func diffSnap(a, b map[string]string) string {
	var d []string
	for k, v := range a {
		if b[k] != v {
			d = append(d, fmt.Sprintf("%s: %s -> %s", k, v, b[k]))
		}
	}
	for k, v := range b {
		if _, ok := a[k]; !ok {
			d = append(d, fmt.Sprintf("%s: (absent) -> %s", k, v))
		}
	}
	sort.Strings(d)
	return strings.Join(d, "; ")
}

func inside(root, p string) bool {
	return p == root || strings.HasPrefix(p, root+string(filepath.Separator))
}

type c18State struct {
	checked int
	escapes int
}

func execC18(p *C18Plan, rc *simkit.RunCtx) {
	s := &c18State{}
	rc.Data = s
	e := newEnv()
	defer e.cleanup()
	// sandbox: base/sb/l1/../<root>, with siblings that extend the root's name
	parent := filepath.Join(e.base, "sb")
	for i := 1; i < p.Depth; i++ {
		parent = filepath.Join(parent, fmt.Sprintf("l%d", i))
	}
	root := filepath.Join(parent, rootName)
	for _, d := range []string{root, filepath.Join(root, "a"), filepath.Join(parent, rootName+"-other"), filepath.Join(parent, rootName+"2"), filepath.Join(parent, "x"), filepath.Join(parent, "DATA")} {
		_ = os.MkdirAll(d, 0o755)
	}
	mk := func(path string, data []byte) { _ = os.WriteFile(path, data, 0o644) }
	rec := func(key string) []byte {
		w, _ := record.NewWrapper("simdb:"+key, &record.Meta{}, dsd.RAW, []byte("payload"))
		b, _ := w.MarshalRecord(w)
		return b
	}
	mk(filepath.Join(root, "a", "inside"), rec("a/inside"))
	mk(filepath.Join(parent, rootName+"-other", "x"), rec("x"))
	mk(filepath.Join(parent, rootName+"-other", "a"), rec("a"))
	mk(filepath.Join(parent, rootName+"2", "x"), rec("x"))
	mk(filepath.Join(parent, "x", "a"), rec("a"))
	mk(filepath.Join(parent, "DATA", "a"), rec("a")) // a sibling whose name differs from the root's in letter case only
	mk(filepath.Join(parent, "file-in-parent"), []byte("parent"))
	_ = os.MkdirAll(filepath.Join(root, "tmp", "pkg_v1-0-0-beta"), 0o755)
	mk(filepath.Join(root, "tmp", "pkg_v1-0-0-beta", "x"), []byte("sibling of the unpack directory"))
	mk(filepath.Join(root, "tmp", "pkg_v1-0-0-beta", "a"), []byte("sibling of the unpack directory"))
	sandbox := filepath.Join(e.base, "sb")
	before := snapshot(sandbox, root)
	rc.H("%s depth=%d names=%d", p.Comp, p.Depth, len(p.Names))
	for i, segs := range p.Names {
		rc.H("%s %q", p.Ops[i], joinName(segs, p.Lead[i], p.Trail[i]))
	}

	var st storage.Interface
	var ds *utils.DirStructure
	var reg *updater.ResourceRegistry
	switch p.Comp {
	case "fstree":
		f, err := fstree.NewFSTree("simdb", root)
		if err != nil {
			rc.Fail("C18.harness", "NewFSTree failed", err.Error())
			return
		}
		st = f
		if p.Late {
			_ = f.Shutdown()
			rc.Probe("storage-used-after-shutdown")
		}
	case "dirstruct":
		ds = utils.NewDirStructure(root, 0o755)
	case "scan", "unpack":
		reg = &updater.ResourceRegistry{Name: "sim"}
		storageDir := utils.NewDirStructure(root, 0o755)
		if p.Late {
			storageDir = utils.NewDirStructure(filepath.Dir(root), 0o755).ChildDir(filepath.Base(root), 0o755)
			rc.Probe("storage-dir-is-a-child-structure")
		}
		if err := reg.Initialize(storageDir); err != nil {
			rc.Fail("C18.harness", "registry init failed", err.Error())
			return
		}
	}
	for i, segs := range p.Names {
		name := joinName(segs, p.Lead[i], p.Trail[i])
		op := p.Ops[i]
		// independent judgement: where does the name point, resolved segment by segment from the root?
		var target string
		switch {
		case op == "abs" || op == "scan":
			// an absolute path given as is (not cleaned): below the parent directory or below the root itself
			base := parent
			if len(segs)%2 == 0 {
				base = root
			}
			name = base + "/" + strings.Join(segs, "/")
			if p.Trail[i] {
				name += "/"
			}
			target = filepath.Clean(name)
		case op == "scanrel":
			// a relative scan root as spelled: it names a place relative to the working directory of the process
			// (which is outside the storage directory here)
			name = strings.Join(segs, "/")
			cwd, _ := os.Getwd()
			target = filepath.Clean(filepath.Join(cwd, name))
			if name == "" {
				target = root // documented: the empty root means the storage directory itself
			}
		case op == "child2":
			target = filepath.Clean(filepath.Join(root, "a", name))
		default:
			target = filepath.Clean(filepath.Join(root, name))
		}
		escapes := !inside(root, target)
		unpackDir := filepath.Join(root, "tmp", "pkg_v1-0-0")
		if op == "entry" {
			// the root of an archive entry is the directory the archive is unpacked into
			target = filepath.Clean(filepath.Join(unpackDir, name))
			escapes = !inside(unpackDir, target) || target == unpackDir
		}
		simfs.Begin(simfs.Plan{CrashAt: -1, ErrAt: -1, ShortAt: -1}, e.tmp)
		var err error
		func() {
			defer func() {
				if r := recover(); r != nil {
					err = fmt.Errorf("panic: %v", r)
				}
			}()
			switch op {
			case "get":
				_, err = st.Get(name)
			case "getmeta":
				// the path taken by the permission pre-check of a put through an interface without all permissions
				if mh, ok := st.(storage.MetaHandler); ok {
					_, err = mh.GetMeta(name)
				} else {
					_, err = st.Get(name)
				}
			case "put":
				w, _ := record.NewWrapper("simdb:"+name, &record.Meta{}, dsd.RAW, []byte("written"))
				_, err = st.Put(w)
			case "delete":
				err = st.Delete(name)
			case "query", "querygone":
				if op == "querygone" {
					// the database directory has vanished (removed by someone else): a query must not wander off
					// into the parent directory instead
					_ = os.Rename(root, root+".gone")
					defer func() { _ = os.Rename(root+".gone", root) }()
				}
				q := query.New("simdb:" + name).MustBeValid()
				it, qerr := st.Query(q, true, true)
				err = qerr
				if qerr == nil {
					for r := range it.Next {
						k := r.DatabaseKey()
						if !inside(root, filepath.Clean(filepath.Join(root, k))) {
							rc.Fail("C18.read-outside", "a query returned a record stored outside the component's root (fstree)", fmt.Sprintf("prefix %q returned key %q", name, k))
						}
					}
					err = it.Err()
				}
			case "abs":
				err = ds.EnsureAbsPath(name)
			case "rel":
				err = ds.EnsureRelPath(name)
			case "reldir":
				err = ds.EnsureRelDir(segs...)
			case "child":
				err = ds.ChildDir(name, 0o755).Ensure()
			case "child2":
				err = ds.ChildDir("a", 0o755).ChildDir(name, 0o700).Ensure()
			case "scan", "scanrel":
				err = reg.ScanStorage(name)
			case "entry":
				err = unpackWith(reg, root, name, rc)
			}
		}()
		calls, _, _ := simfs.End()
		s.checked++
		if escapes {
			s.escapes++
		}
		if rc.Failed() {
			return
		}
		// every file system access stays inside the root (or the temp location)
		temps := simfs.Temps()
		for _, c := range calls {
			for _, rp := range c.Real {
				ok := inside(root, rp) || inside(e.tmp, rp)
				for _, t := range temps {
					if inside(t, rp) {
						ok = true
					}
				}
				// creating the root itself and looking at its parents on the way is part of set-up
				if !ok && (c.Op == "stat" || c.Op == "lstat" || c.Op == "mkdirall" || c.Op == "mkdir" || c.Op == "chmod") && inside(rp, root) {
					ok = true
				}
				// starting a walk at an ancestor of the root looks at that directory entry only (an lstat); what counts is
				// whether the walk then visits anything in it that is not the root's own line of ancestors
				if !ok && (c.Op == "walk" || c.Op == "walk-visit") && inside(rp, root) {
					ok = true
				}
				if ok && op == "entry" && (c.Op == "openfile" || c.Op == "mkdir") && !inside(unpackDir, rp) {
					ok = false // an entry was extracted outside of the unpack directory
				}
				if !ok {
					kind := "read"
					if c.Mut {
						kind = "modified"
					}
					rc.Fail("C18.access-outside", fmt.Sprintf("the component %s something outside its root (%s %s, name %s)", kind, p.Comp, op, nameClass(segs, p.Lead[i])),
						fmt.Sprintf("name %q: %s resolved to %s (root %s)", name, c.Describe(), rp, root))
					return
				}
			}
		}
		after := snapshot(sandbox, root)
		if d := diffSnap(before, after); d != "" {
			rc.Fail("C18.outside-changed", fmt.Sprintf("something outside the root was created, modified or deleted (%s %s, name %s)", p.Comp, op, nameClass(segs, p.Lead[i])), fmt.Sprintf("name %q: %s", name, d))
			return
		}
		if escapes && err == nil && op != "query" && op != "querygone" {
			rc.Fail("C18.escape-accepted", fmt.Sprintf("a name that escapes the root was not rejected with an error (%s %s, name %s)", p.Comp, op, nameClass(segs, p.Lead[i])), fmt.Sprintf("name %q resolves to %s", name, target))
			return
		}
	}
}

// nameClass names the way in which a name tries to leave the root.
func nameClass(segs []string, lead bool) string {
	for _, s := range segs {
		if strings.HasPrefix(s, rootName) && s != rootName {
			return "via a sibling directory sharing the root's name as prefix"
		}
	}
	for _, s := range segs {
		if s == "DATA" {
			return "via a sibling directory whose name differs in letter case"
		}
	}
	for _, s := range segs {
		if s == ".." {
			return "with parent references"
		}
	}
	if lead {
		return "with an absolute prefix"
	}
	return "plain"
}

func unpackWith(reg *updater.ResourceRegistry, root, entry string, rc *simkit.RunCtx) error {
	// a zip archive "pkg.zip" version 1.0.0 with one hostile entry
	if err := reg.AddResource("pkg.zip", "1.0.0", nil, true, false, false); err != nil {
		return nil // already added by an earlier name of this plan: one archive per run
	}
	reg.SelectVersions()
	res, ok := reg.VerifSimResource("pkg.zip")
	if !ok || res.SelectedVersion == nil {
		rc.Fail("C18.harness", "archive resource not selectable", "")
		return nil
	}
	rc.Probe("archives-unpacked")
	arch := filepath.Join(root, "pkg_v1-0-0.zip")
	f, err := os.Create(arch)
	if err != nil {
		return err
	}
	zw := zip.NewWriter(f)
	w, err := zw.Create(entry)
	if err == nil {
		_, _ = w.Write([]byte("zip entry content"))
	}
	// a symbolic-link entry pointing out of the unpack directory, and a file entry below it: the names pass any
	// lexical check, the place they would land in does not
	lh := &zip.FileHeader{Name: "lnk", Method: zip.Store}
	lh.SetMode(os.ModeSymlink | 0o777)
	if lw, lerr := zw.CreateHeader(lh); lerr == nil {
		_, _ = lw.Write([]byte(filepath.Join(filepath.Dir(root), rootName+"-other")))
	}
	if w3, _ := zw.Create("lnk/x"); w3 != nil {
		_, _ = w3.Write([]byte("written through a link entry"))
	}
	_, _ = zw.Create("ok/")
	w2, _ := zw.Create("ok/inner.txt")
	if w2 != nil {
		_, _ = w2.Write([]byte("inner"))
	}
	_ = zw.Close()
	_ = f.Close()
	return res.UnpackArchive()
}

func checkC18(p *C18Plan, rc *simkit.RunCtx) {
	if s, ok := rc.Data.(*c18State); ok {
		rc.Probes["names-checked"] += s.checked
		rc.Probes["escaping-names"] += s.escapes
	}
	if rc.Stats.StepCap {
		rc.Inconcl = "step-cap"
	}
}
