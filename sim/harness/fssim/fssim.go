// Package fssim drives the atomic-publication primitives and the
// name-to-path components on the disk seam (C17, C18).
package fssim

import (
	"bytes"
	"encoding/json"
	"fmt"
	"math/rand/v2"
	"os"
	"path/filepath"
	"sort"
	"strings"
	"sync"
	"syscall"

	"archive/zip"
	"github.com/safing/portbase/database/record"
	"github.com/safing/portbase/database/storage/fstree"
	"github.com/safing/portbase/formats/dsd"
	"github.com/safing/portbase/log"
	"github.com/safing/portbase/updater"
	"github.com/safing/portbase/utils"
	"github.com/safing/portbase/utils/renameio"
	"github.com/safing/portbase/verifsim/simfs"
	"github.com/safing/portbase/verifsim/simkit"
	"github.com/safing/portbase/verifsim/simrt"
)

// H is the harness.
type H struct{}

func (H) Reset() {
	log.VerifSimReset()
	// The logger is not started in this harness: nobody drains its buffer. Once the buffer is full every further
	// line parks a goroutine, and thousands of them make a long run (multi-megabyte content, every fault point)
	// crawl. Only critical lines pass.
	log.SetLogLevel(log.CriticalLevel)
}

func (H) Tune(prop string, plan any, cfg *simrt.Config) {
	cfg.MaxSteps = 2000000
	cfg.MaxAdvIdx = 2
}

// FSPlan is one C17 workload case; all its crash points and error points are enumerated.
type FSPlan struct {
	Prim           string `json:"prim"`           // writefile tempfile symlink createatomic copyatomic replaceatomic fstreeput
	Many           bool   `json:"many,omitempty"` // unpackzip: two archives with the same file name and version below different directories, unpacked by one UnpackResources call
	Dest           int    `json:"dest"`           // 0 absent, 1 present, 2 present with other mode, 3 present read-only, 4 a symbolic link to a file with the old content
	OldSize        int    `json:"old_size"`
	NewSize        int    `json:"new_size"`
	Explicit       bool   `json:"explicit_tmp,omitempty"` // caller-specified temp dir
	Readers        int    `json:"readers"`
	Twin           bool   `json:"twin,omitempty"`    // additionally two overlapping calls (no faults): unpackzip: the same archive; file primitives: two writers with different content for the same destination
	Corrupt        bool   `json:"corrupt,omitempty"` // unpackzip: additionally an archive one of whose entries is cut off: nothing may be published
	corruptArchive bool   // set on a copy of the plan while the damaged archive is prepared
	BadTmp         bool   `json:"bad_tmp,omitempty"` // the explicitly given temporary directory does not exist
	Mode           int    `json:"mode,omitempty"`    // requested mode index
	Net            []int  `json:"net,omitempty"`     // fetch: behaviour of the download transport per attempt (0 ok, 1 truncated body, 2 error mid-body, 3 status 500, 4 body longer than announced, 5 unknown length and connection dropped half way)
}

var sizes = []int{0, 1, 4096, 200000, 3 << 20}
var prims = []string{"writefile", "tempfile", "symlink", "createatomic", "copyatomic", "replaceatomic", "fstreeput", "fetch", "fetch", "unpackgz", "unpackzip"}

func (H) Generate(prop string, rng *rand.Rand, tier string) any {
	if prop == "C18" {
		return genC18(rng, tier)
	}
	p := &FSPlan{Prim: prims[rng.IntN(len(prims))], Dest: rng.IntN(3), Readers: rng.IntN(4), Explicit: rng.IntN(3) == 0, Mode: rng.IntN(3)}
	maxSize := 4
	if tier != "thorough" {
		maxSize = 4
	}
	p.OldSize, p.NewSize = rng.IntN(maxSize), rng.IntN(maxSize)
	if p.Prim == "fetch" {
		n := 1 + rng.IntN(3)
		for i := 0; i < n; i++ {
			p.Net = append(p.Net, rng.IntN(8))
		}
		if rng.IntN(2) == 0 {
			p.Net = append(p.Net, 0)
		}
	}
	if p.Prim == "unpackzip" {
		p.Twin = rng.IntN(2) == 0
		p.Corrupt = rng.IntN(2) == 0
		p.Many = rng.IntN(3) == 0
		p.Dest = 0
	}
	switch p.Prim {
	case "writefile", "tempfile", "createatomic", "copyatomic", "replaceatomic", "fstreeput":
		p.Twin = rng.IntN(3) == 0
	}
	switch p.Prim {
	case "tempfile", "createatomic", "copyatomic", "replaceatomic":
		if p.Explicit && rng.IntN(4) == 0 {
			p.BadTmp = true
			p.Twin = false
		}
		if (p.Dest == 2 && rng.IntN(2) == 0) || (p.Dest != 0 && p.Mode == 0 && rng.IntN(2) == 0) {
			p.Dest = 3 // present and read-only (with no mode requested the replacement takes over the destination's mode)
		}
	}
	switch p.Prim {
	case "writefile", "tempfile", "createatomic", "copyatomic", "replaceatomic":
		if p.Dest == 1 && rng.IntN(3) == 0 {
			p.Dest = 4
		}
	}
	if tier == "thorough" && rng.IntN(6) == 0 {
		p.NewSize = 4
	}
	return p
}

func (H) Decode(prop string, raw json.RawMessage) (any, error) {
	if prop == "C18" {
		p := &C18Plan{}
		return p, json.Unmarshal(raw, p)
	}
	p := &FSPlan{}
	return p, json.Unmarshal(raw, p)
}

func (H) Shrink(prop string, plan any) []any {
	if prop == "C18" {
		return shrinkC18(plan.(*C18Plan))
	}
	p := plan.(*FSPlan)
	var out []any
	if p.Readers > 0 {
		q := *p
		q.Readers = 0
		out = append(out, &q)
	}
	if p.NewSize > 1 {
		q := *p
		q.NewSize = 1
		out = append(out, &q)
	}
	if p.OldSize > 1 {
		q := *p
		q.OldSize = 1
		out = append(out, &q)
	}
	if p.Explicit {
		q := *p
		q.Explicit = false
		out = append(out, &q)
	}
	if p.Dest == 2 {
		q := *p
		q.Dest = 1
		out = append(out, &q)
	}
	return out
}

func content(tag byte, n int) []byte {
	b := make([]byte, n)
	for i := range b {
		b[i] = tag + byte(i%7)
	}
	return b
}

var runN int

type fsEnv struct {
	base, root, tmp, exp, dest, src string
}

func newEnvFor(prim string) *fsEnv {
	e := newEnv()
	switch prim {
	case "fetch", "unpackgz":
		e.dest = filepath.Join(e.root, "res_v1-0-0.bin")
	case "unpackzip":
		e.dest = filepath.Join(e.root, "pkg_v1-0-0")
	}
	return e
}

func newEnv() *fsEnv {
	runN++
	base, _ := filepath.Abs(fmt.Sprintf("fssim-%d/r%d", os.Getpid(), runN))
	_ = os.RemoveAll(base)
	e := &fsEnv{base: base, root: filepath.Join(base, "root"), tmp: filepath.Join(base, "tmp"), exp: filepath.Join(base, "exptmp")}
	for _, d := range []string{e.root, e.tmp, e.exp, filepath.Join(base, "outside")} {
		_ = os.MkdirAll(d, 0o755)
	}
	_ = os.WriteFile(filepath.Join(base, "outside", "sentinel"), []byte("sentinel"), 0o644)
	e.dest = filepath.Join(e.root, "sub", "dest.bin")
	_ = os.MkdirAll(filepath.Dir(e.dest), 0o755)
	e.src = filepath.Join(base, "outside", "source.bin")
	return e
}

func (e *fsEnv) cleanup() { _ = os.RemoveAll(e.base) }

type fsState struct {
	p          *FSPlan
	rc         *simkit.RunCtx
	executions int
	points     int
}

// runPrimitive executes the primitive once under the given fault plan and returns its error and whether it crashed.
func runPrimitive(p *FSPlan, e *fsEnv, newData []byte, fp simfs.Plan) (err error, crashed bool, calls []simfs.Call, nmut int) {
	var reg *updater.ResourceRegistry
	var res *updater.Resource
	switch p.Prim {
	case "fetch", "unpackgz", "unpackzip":
		reg, res, err = prepareRegistry(p, e, newData)
		if err != nil {
			return err, false, nil, 0
		}
	}
	simfs.Begin(fp, e.tmp)
	func() {
		defer func() {
			if r := recover(); r != nil {
				if _, ok := r.(simfs.Crash); ok {
					return
				}
				panic(r)
			}
		}()
		tmpDir := ""
		if p.Explicit {
			tmpDir = e.exp
		}
		mode := []os.FileMode{0, 0o600, 0o644}[p.Mode]
		switch p.Prim {
		case "writefile":
			m := mode
			if m == 0 {
				m = 0o644
			}
			err = renameio.WriteFile(e.dest, newData, m)
		case "tempfile":
			var t *renameio.PendingFile
			t, err = renameio.TempFile(tmpDir, e.dest)
			if err == nil {
				defer t.Cleanup() //nolint:errcheck
				if _, err = t.Write(newData); err == nil {
					err = t.CloseAtomicallyReplace()
				}
			}
		case "symlink":
			err = renameio.Symlink("new-target", e.dest)
		case "createatomic":
			err = utils.CreateAtomic(e.dest, bytes.NewReader(newData), &utils.AtomicFileOptions{Mode: mode, TempDir: tmpDir})
		case "copyatomic":
			err = utils.CopyFileAtomic(e.dest, e.src, &utils.AtomicFileOptions{Mode: mode, TempDir: tmpDir})
		case "replaceatomic":
			err = utils.ReplaceFileAtomic(e.dest, e.src, &utils.AtomicFileOptions{Mode: mode, TempDir: tmpDir})
		case "fetch":
			_, err = reg.GetFile("res.bin")
		case "unpackgz":
			var f *updater.File
			f, err = reg.GetFile("res.bin.gz")
			if err == nil {
				_, err = f.Unpack(".gz", updater.UnpackGZIP)
			}
		case "unpackzip":
			err = res.UnpackArchive()
		case "fstreeput":
			var st interface {
				Put(record.Record) (record.Record, error)
			}
			s, serr := fstree.NewFSTree("simdb", e.root)
			if serr != nil {
				err = serr
				return
			}
			st = s
			w, _ := record.NewWrapper("simdb:sub/dest.bin", &record.Meta{}, dsd.RAW, newData)
			_, err = st.Put(w)
		}
	}()
	calls, nmut, crashed = simfs.End()
	return
}

func (H) Execute(prop string, plan any, rc *simkit.RunCtx) {
	if prop == "C18" {
		execC18(plan.(*C18Plan), rc)
		return
	}
	p := plan.(*FSPlan)
	s := &fsState{p: p, rc: rc}
	rc.Data = s
	oldData := content('A', sizes[p.OldSize])
	newData := content('N', sizes[p.NewSize])
	// expected stored form of the new content (fstree stores a record envelope)
	setup := func() *fsEnv {
		e := newEnvFor(p.Prim)
		_ = os.WriteFile(e.src, newData, 0o640)
		switch p.Dest {
		case 1:
			writeOld(p, e, oldData, 0o644)
		case 2:
			writeOld(p, e, oldData, 0o600)
		case 3:
			writeOld(p, e, oldData, 0o444)
		case 4:
			// the destination path is a symbolic link (readers open it and see the old content)
			_ = os.WriteFile(e.dest+".target", oldData, 0o644)
			_ = os.Symlink(filepath.Base(e.dest)+".target", e.dest)
		}
		if p.BadTmp {
			_ = os.RemoveAll(e.exp)
		}
		return e
	}
	// fault-free execution first
	e := setup()
	err, _, calls, nmut := runPrimitive(p, e, newData, simfs.Plan{CrashAt: -1, ErrAt: -1, ShortAt: -1})
	s.executions++
	if err != nil && p.BadTmp {
		// the temporary directory the caller named cannot be used: failing is fine, as long as nothing happened
		oldSt := ""
		if p.Dest != 0 {
			e2 := setup()
			oldSt, _ = readState(p, e2)
			e2.cleanup()
		}
		st, exists := readState(p, e)
		switch {
		case exists != (p.Dest != 0) || (exists && st != oldSt):
			rc.Fail("C17.dest-fragment", "an operation that failed for lack of a usable temporary directory changed the destination ("+p.Prim+")", err.Error())
		default:
			if stray := strayFiles(p, e); stray != "" {
				rc.Fail("C17.stray-outside-temp", "a failed or interrupted operation left a file outside the temporary location ("+p.Prim+")", "unusable temporary directory: "+stray)
			}
		}
		rc.Probe("unusable-temp-dir")
		e.cleanup()
		return
	}
	if err != nil {
		rc.Fail("C17.fault-free-error", "the primitive failed without any injected fault ("+p.Prim+")", err.Error())
		e.cleanup()
		return
	}
	newState, ok := readState(p, e)
	if !ok {
		rc.Fail("C17.fault-free-missing", "after a successful run the destination does not exist ("+p.Prim+")", "")
		e.cleanup()
		return
	}
	oldState := ""
	if p.Dest != 0 {
		e2 := setup()
		oldState, _ = readState(p, e2)
		e2.cleanup()
	}
	if p.Prim != "symlink" && p.Prim != "unpackzip" && !(p.Prim == "unpackgz" && p.Dest != 0) && !checkFsyncBeforeRename(calls, e.dest, rc, p) {
		e.cleanup()
		return
	}
	if p.Twin && p.Prim == "unpackzip" && p.Dest == 0 {
		if !twinUnpack(p, rc, setup(), newData, newState) {
			e.cleanup()
			return
		}
	}
	if p.Many && p.Prim == "unpackzip" && p.Dest == 0 {
		if !manyUnpack(p, rc, setup, newData) {
			e.cleanup()
			return
		}
	}
	if p.Corrupt && p.Prim == "unpackzip" && p.Dest == 0 {
		if !corruptUnpack(p, rc, setup(), newData, newState) {
			e.cleanup()
			return
		}
	}
	if p.Twin && p.Prim != "unpackzip" {
		if !twinWriters(p, rc, setup, oldState, newState, newData) {
			e.cleanup()
			return
		}
	}
	e.cleanup()
	rc.H("%s dest=%d old=%d new=%d calls=%d", p.Prim, p.Dest, p.OldSize, p.NewSize, nmut)
	var nWrites int
	for _, c := range calls {
		if c.Op == "write" {
			nWrites++
		}
	}
	type faultCase struct {
		fp   simfs.Plan
		name string
	}
	var cases []faultCase
	// The k-th mutating call is a fault point. With multi-megabyte content most of them are writes of one more chunk
	// to the same temporary file; beyond 60 points all calls other than writes are kept together with the first,
	// the last and evenly spaced writes (24 of them), otherwise a single case costs minutes.
	var points []int
	{
		var writeIdx []int
		k := 0
		for _, c := range calls {
			if !c.Mut {
				continue
			}
			if c.Op == "write" {
				writeIdx = append(writeIdx, k)
			} else {
				points = append(points, k)
			}
			k++
		}
		if nmut <= 60 || len(writeIdx) <= 24 {
			points = points[:0]
			for k := 0; k < nmut; k++ {
				points = append(points, k)
			}
		} else {
			for j := 0; j < 24; j++ {
				points = append(points, writeIdx[j*(len(writeIdx)-1)/23])
			}
			sort.Ints(points)
			rc.Probe("fault-points-sampled")
		}
	}
	for _, k := range points {
		cases = append(cases, faultCase{simfs.Plan{CrashAt: k, ErrAt: -1, ShortAt: -1}, fmt.Sprintf("crash@%d", k)})
	}
	// a rename can also fail because the temporary location is on another file system
	{
		k := 0
		for _, c := range calls {
			if !c.Mut {
				continue
			}
			if c.Op == "rename" {
				cases = append(cases, faultCase{simfs.Plan{CrashAt: -1, ErrAt: k, Errno: syscall.EXDEV, ShortAt: -1}, fmt.Sprintf("err@%d(%v)", k, syscall.EXDEV)})
			}
			k++
		}
	}
	for _, k := range points {
		for _, en := range []syscall.Errno{syscall.ENOSPC, syscall.EIO} {
			cases = append(cases, faultCase{simfs.Plan{CrashAt: -1, ErrAt: k, Errno: en, ShortAt: -1}, fmt.Sprintf("err@%d(%v)", k, en)})
		}
	}
	for w := 0; w < nWrites && w < 3; w++ {
		cases = append(cases, faultCase{simfs.Plan{CrashAt: -1, ErrAt: -1, ShortAt: w}, fmt.Sprintf("short@%d", w)})
	}
	for _, fc := range cases {
		if rc.Failed() {
			return
		}
		e := setup()
		// concurrent readers
		stop := false
		var wg sync.WaitGroup
		readerFail := ""
		for r := 0; r < p.Readers; r++ {
			wg.Add(1)
			go func() {
				defer wg.Done()
				for i := 0; i < 400 && !stop; i++ {
					simrt.Yield("reader")
					st, ok := readState(p, e)
					if !ok {
						if p.Dest != 0 && readerFail == "" {
							readerFail = "a reader found the destination missing although it existed before the operation"
						}
						continue
					}
					if st != oldState && st != newState && readerFail == "" {
						readerFail = "a concurrent reader observed a destination that is neither the complete old nor the complete new content"
					}
				}
			}()
		}
		err, crashed, fcalls, _ := runPrimitive(p, e, newData, fc.fp)
		stop = true
		wg.Wait()
		s.executions++
		s.points++
		for k, v := range simfs.Faults() {
			rc.Faults[k] += v
		}
		when := fmt.Sprintf("%s %s", p.Prim, fc.name)
		if fc.fp.ErrAt >= 0 && !rc.Failed() {
			// "flushed to stable storage before it is renamed into place": when the flush itself fails, nothing may be
			// renamed onto the destination afterwards
			k, failedSync := 0, ""
			for _, c := range fcalls {
				if !c.Mut {
					continue
				}
				if k == fc.fp.ErrAt && c.Op == "fsync" && c.Err != "" && len(c.Paths) > 0 {
					failedSync = c.Paths[0]
				}
				// (a retry with a fresh temporary file that is flushed successfully is fine)
				if failedSync != "" && c.Op == "rename" && c.Err == "" && len(c.Paths) == 2 && c.Paths[0] == failedSync {
					rc.Fail("C17.no-fsync-before-rename", "the temporary file was renamed onto the destination although flushing it had failed ("+p.Prim+")", when+lastCalls(fcalls))
				}
				k++
			}
		}
		if readerFail != "" {
			rc.Fail("C17.reader-partial", readerFail+" ("+p.Prim+")", when)
			e.cleanup()
			return
		}
		st, exists := readState(p, e)
		switch {
		case !exists && p.Dest != 0:
			rc.Fail("C17.dest-lost", "after a crash or failed operation the destination that existed before is gone ("+p.Prim+")", when+lastCalls(fcalls))
		case exists && st != oldState && st != newState:
			rc.Fail("C17.dest-fragment", "after a crash or failed operation the destination holds neither the complete previous nor the complete new content ("+p.Prim+")", when+lastCalls(fcalls))
		case exists && p.Dest == 0 && st != newState:
			rc.Fail("C17.dest-fragment", "after a crash or failed operation a destination that did not exist holds something other than the complete new content ("+p.Prim+")", when+lastCalls(fcalls))
		case !crashed && err == nil && (!exists || st != newState):
			rc.Fail("C17.silent-failure", "the operation reported success but the destination does not hold the new content ("+p.Prim+")", when+lastCalls(fcalls))
		}
		if !rc.Failed() {
			if stray := strayFiles(p, e); stray != "" {
				rc.Fail("C17.stray-outside-temp", "a failed or interrupted operation left a file outside the temporary location ("+p.Prim+")", when+": "+stray)
			}
		}
		e.cleanup()
	}
	_ = simfs.Temps()
}

// twinUnpack: two overlapping UnpackArchive calls for the same, not yet unpacked archive, with readers. At every
// instant the destination is absent or complete, and it is complete after both have returned.
func twinUnpack(p *FSPlan, rc *simkit.RunCtx, e *fsEnv, newData []byte, newState string) bool {
	defer e.cleanup()
	_, res, err := prepareRegistry(p, e, newData)
	if err != nil {
		rc.Fail("C17.harness", "twin unpack set-up failed", err.Error())
		return false
	}
	simfs.Begin(simfs.Plan{CrashAt: -1, ErrAt: -1, ShortAt: -1}, e.tmp)
	stop := false
	var wg, rwg sync.WaitGroup
	readerFail := ""
	for r := 0; r < 1+p.Readers; r++ {
		rwg.Add(1)
		go func() {
			defer rwg.Done()
			for i := 0; i < 600 && !stop; i++ {
				simrt.Yield("reader")
				if st, ok := readState(p, e); ok && st != newState && readerFail == "" {
					readerFail = "a concurrent reader observed an unpacked directory that is not complete"
				}
			}
		}()
	}
	errs := make([]error, 2)
	for k := 0; k < 2; k++ {
		k := k
		wg.Add(1)
		go func() {
			defer wg.Done()
			errs[k] = res.UnpackArchive()
		}()
	}
	wg.Wait()
	stop = true
	rwg.Wait()
	_, _, _ = simfs.End()
	rc.Probe("twin-unpack")
	if readerFail != "" {
		rc.Fail("C17.reader-partial", readerFail+" (two overlapping unpackzip calls)", fmt.Sprintf("errors: %v / %v", errs[0], errs[1]))
		return false
	}
	st, ok := readState(p, e)
	if !ok || st != newState {
		rc.Fail("C17.dest-fragment", "after two overlapping unpack calls the destination is missing or incomplete (unpackzip)", fmt.Sprintf("exists=%v errors: %v / %v", ok, errs[0], errs[1]))
		return false
	}
	return true
}

// manyUnpack: two archives "pkg.zip" of the same version below linux/ and windows/, both on the auto-unpack list, unpacked
// by one UnpackResources call while readers watch both destinations: each is absent or holds exactly the content of its
// own archive at every instant, and both are complete afterwards.
func manyUnpack(p *FSPlan, rc *simkit.RunCtx, setup func() *fsEnv, newData []byte) bool {
	build := func(e *fsEnv) (*updater.ResourceRegistry, [2]string, error) {
		reg := &updater.ResourceRegistry{Name: "sim", UpdateURLs: []string{"http://updates.sim/"}, Online: true, AutoUnpack: []string{"linux/pkg.zip", "windows/pkg.zip"}}
		var dests [2]string
		if err := reg.Initialize(utils.NewDirStructure(e.root, 0o755)); err != nil {
			return nil, dests, err
		}
		for k, plat := range []string{"linux", "windows"} {
			if err := os.MkdirAll(filepath.Join(e.root, plat), 0o755); err != nil {
				return nil, dests, err
			}
			f, err := os.Create(filepath.Join(e.root, plat, "pkg_v1-0-0.zip"))
			if err != nil {
				return nil, dests, err
			}
			zw := zip.NewWriter(f)
			for i := 0; i < 6; i++ {
				w, err := zw.Create(fmt.Sprintf("%s-file%d.bin", plat, i))
				if err != nil {
					return nil, dests, err
				}
				_, _ = w.Write(append([]byte(fmt.Sprintf("%s entry %d ", plat, i)), newData...))
			}
			_ = zw.Close()
			_ = f.Close()
			if err := reg.AddResource(plat+"/pkg.zip", "1.0.0", nil, true, false, false); err != nil {
				return nil, dests, err
			}
			dests[k] = filepath.Join(e.root, plat, "pkg_v1-0-0")
		}
		reg.SelectVersions()
		return reg, dests, nil
	}
	// what each destination holds when its archive is unpacked on its own
	e0 := setup()
	reg0, d0, err := build(e0)
	if err != nil {
		rc.Fail("C17.harness", "multi-archive set-up failed", err.Error())
		e0.cleanup()
		return false
	}
	if err := reg0.UnpackResources(); err != nil {
		rc.Fail("C17.fault-free-error", "UnpackResources failed without any injected fault", err.Error())
		e0.cleanup()
		return false
	}
	var want [2]string
	for k := range d0 {
		st, ok := dirState(d0[k])
		if !ok {
			rc.Fail("C17.fault-free-missing", "after a successful UnpackResources a destination does not exist", d0[k])
			e0.cleanup()
			return false
		}
		want[k] = st
	}
	e0.cleanup()
	e := setup()
	defer e.cleanup()
	reg, dests, err := build(e)
	if err != nil {
		rc.Fail("C17.harness", "multi-archive set-up failed", err.Error())
		return false
	}
	simfs.Begin(simfs.Plan{CrashAt: -1, ErrAt: -1, ShortAt: -1}, e.tmp)
	stop := false
	var rwg sync.WaitGroup
	readerFail := ""
	for r := 0; r < 1+p.Readers; r++ {
		rwg.Add(1)
		go func() {
			defer rwg.Done()
			for i := 0; i < 600 && !stop; i++ {
				simrt.Yield("reader")
				for k := range dests {
					if st, ok := dirState(dests[k]); ok && st != want[k] && readerFail == "" {
						readerFail = fmt.Sprintf("a concurrent reader observed an unpacked directory that does not hold exactly the content of its archive (%s)", filepath.Base(filepath.Dir(dests[k])))
					}
				}
			}
		}()
	}
	uerr := reg.UnpackResources()
	stop = true
	rwg.Wait()
	_, _, _ = simfs.End()
	rc.Probe("several-archives-unpacked-by-one-call")
	if readerFail != "" {
		rc.Fail("C17.reader-partial", readerFail, fmt.Sprintf("error: %v", uerr))
		return false
	}
	for k := range dests {
		if st, ok := dirState(dests[k]); !ok || st != want[k] {
			rc.Fail("C17.dest-fragment", "after UnpackResources a destination is missing or does not hold exactly the content of its archive", fmt.Sprintf("%s exists=%v error: %v", dests[k], ok, uerr))
			return false
		}
	}
	return true
}

// corruptUnpack: an archive with one good entry and one whose compressed stream is cut off. Unpacking must fail and
// the destination must stay absent at every instant.
func corruptUnpack(p *FSPlan, rc *simkit.RunCtx, e *fsEnv, newData []byte, goodState string) bool {
	defer e.cleanup()
	q := *p
	q.corruptArchive = true
	_, res, err := prepareRegistry(&q, e, newData)
	if err != nil {
		rc.Fail("C17.harness", "corrupt archive set-up failed", err.Error())
		return false
	}
	simfs.Begin(simfs.Plan{CrashAt: -1, ErrAt: -1, ShortAt: -1}, e.tmp)
	stop := false
	var rwg sync.WaitGroup
	seen := ""
	for r := 0; r < 1+p.Readers; r++ {
		rwg.Add(1)
		go func() {
			defer rwg.Done()
			for i := 0; i < 600 && !stop; i++ {
				simrt.Yield("reader")
				if st, ok := readState(p, e); ok && seen == "" {
					seen = st
				}
			}
		}()
	}
	uerr := res.UnpackArchive()
	stop = true
	rwg.Wait()
	_, _, _ = simfs.End()
	rc.Probe("corrupt-archive-unpack")
	if seen != "" {
		rc.Fail("C17.reader-partial", "a concurrent reader observed a destination although the archive is damaged (unpackzip)", seen)
		return false
	}
	if st, ok := readState(p, e); ok {
		rc.Fail("C17.dest-fragment", "unpacking a damaged archive published a destination (unpackzip, cut-off entry)", fmt.Sprintf("error: %v; destination: %s", uerr, st))
		return false
	}
	if uerr == nil {
		rc.Fail("C17.silent-failure", "unpacking a damaged archive reported success (unpackzip, cut-off entry)", "")
		return false
	}
	// the download is repaired (the intact archive of the same version takes the place of the damaged one) and unpacked
	// again: the destination then shows exactly the content of the intact archive
	e2 := newEnvFor(p.Prim)
	good := *p
	good.corruptArchive = false
	if _, _, err := prepareRegistry(&good, e2, newData); err != nil {
		rc.Fail("C17.harness", "repaired archive set-up failed", err.Error())
		e2.cleanup()
		return false
	}
	intact, rerr := os.ReadFile(filepath.Join(e2.root, "pkg_v1-0-0.zip"))
	e2.cleanup()
	if rerr != nil || os.WriteFile(filepath.Join(e.root, "pkg_v1-0-0.zip"), intact, 0o644) != nil {
		rc.Fail("C17.harness", "repaired archive set-up failed", fmt.Sprint(rerr))
		return false
	}
	simfs.Begin(simfs.Plan{CrashAt: -1, ErrAt: -1, ShortAt: -1}, e.tmp)
	uerr2 := res.UnpackArchive()
	_, _, _ = simfs.End()
	st, ok := readState(p, e)
	if uerr2 != nil || !ok || st != goodState {
		rc.Fail("C17.dest-fragment", "after a failed unpack of a damaged archive, unpacking the repaired archive did not publish exactly its content (unpackzip)", fmt.Sprintf("error: %v exists=%v", uerr2, ok))
		return false
	}
	rc.Probe("repaired-archive-unpacked-after-failure")
	return true
}

// twinWriters: two overlapping invocations of the primitive for the same destination with different new content, plus
// readers. At every instant the destination shows the old state or one of the two complete new states, and one of
// the new states after both have returned.
func twinWriters(p *FSPlan, rc *simkit.RunCtx, setup func() *fsEnv, oldState, newStateA string, dataA []byte) bool {
	dataB := content('B', len(dataA)+3)
	// what the destination looks like after a lone write of the second content
	eb := setup()
	_ = os.WriteFile(eb.src, dataB, 0o640)
	if err, _, _, _ := runPrimitive(p, eb, dataB, simfs.Plan{CrashAt: -1, ErrAt: -1, ShortAt: -1}); err != nil {
		eb.cleanup()
		rc.Fail("C17.fault-free-error", "the primitive failed without any injected fault ("+p.Prim+")", err.Error())
		return false
	}
	newStateB, _ := readState(p, eb)
	eb.cleanup()
	e := setup()
	defer e.cleanup()
	// the second writer copies from its own source file
	srcB := e.src + ".b"
	_ = os.WriteFile(srcB, dataB, 0o640)
	simfs.Begin(simfs.Plan{CrashAt: -1, ErrAt: -1, ShortAt: -1}, e.tmp)
	stop := false
	var wg, rwg sync.WaitGroup
	readerFail := ""
	for r := 0; r < 1+p.Readers; r++ {
		rwg.Add(1)
		go func() {
			defer rwg.Done()
			for i := 0; i < 600 && !stop; i++ {
				simrt.Yield("reader")
				st, ok := readState(p, e)
				if !ok {
					if p.Dest != 0 && readerFail == "" {
						readerFail = "a reader found the destination missing although it existed before the operation"
					}
					continue
				}
				if st != oldState && st != newStateA && st != newStateB && readerFail == "" {
					readerFail = "a concurrent reader observed a destination that is neither the complete old content nor one of the two complete new contents"
				}
			}
		}()
	}
	errs := make([]error, 2)
	for k := 0; k < 2; k++ {
		k := k
		wg.Add(1)
		go func() {
			defer wg.Done()
			data, src := dataA, e.src
			if k == 1 {
				data, src = dataB, srcB
			}
			errs[k] = runWrite(p, e, data, src)
		}()
	}
	wg.Wait()
	stop = true
	rwg.Wait()
	_, _, _ = simfs.End()
	rc.Probe("twin-writers")
	if readerFail != "" {
		rc.Fail("C17.reader-partial", readerFail+" (two overlapping "+p.Prim+" calls)", fmt.Sprintf("errors: %v / %v", errs[0], errs[1]))
		return false
	}
	st, ok := readState(p, e)
	switch {
	case !ok:
		rc.Fail("C17.dest-lost", "after two overlapping writes the destination is gone ("+p.Prim+")", fmt.Sprintf("errors: %v / %v", errs[0], errs[1]))
		return false
	case errs[0] == nil && errs[1] == nil && st != newStateA && st != newStateB:
		rc.Fail("C17.dest-fragment", "after two overlapping writes the destination holds neither of the two complete new contents ("+p.Prim+")", fmt.Sprintf("state %s", st))
		return false
	case st != oldState && st != newStateA && st != newStateB:
		rc.Fail("C17.dest-fragment", "after two overlapping writes the destination holds neither the old nor one of the two complete new contents ("+p.Prim+")", fmt.Sprintf("state %s errors: %v / %v", st, errs[0], errs[1]))
		return false
	}
	return true
}

// runWrite performs one invocation of a file primitive (no fault plan handling: the caller has begun the seam).
func runWrite(p *FSPlan, e *fsEnv, data []byte, src string) (err error) {
	tmpDir := ""
	if p.Explicit {
		tmpDir = e.exp
	}
	mode := []os.FileMode{0, 0o600, 0o644}[p.Mode]
	switch p.Prim {
	case "writefile":
		m := mode
		if m == 0 {
			m = 0o644
		}
		return renameio.WriteFile(e.dest, data, m)
	case "tempfile":
		t, terr := renameio.TempFile(tmpDir, e.dest)
		if terr != nil {
			return terr
		}
		defer t.Cleanup() //nolint:errcheck
		if _, err = t.Write(data); err == nil {
			err = t.CloseAtomicallyReplace()
		}
		return err
	case "createatomic":
		return utils.CreateAtomic(e.dest, bytes.NewReader(data), &utils.AtomicFileOptions{Mode: mode, TempDir: tmpDir})
	case "copyatomic":
		return utils.CopyFileAtomic(e.dest, src, &utils.AtomicFileOptions{Mode: mode, TempDir: tmpDir})
	case "replaceatomic":
		return utils.ReplaceFileAtomic(e.dest, src, &utils.AtomicFileOptions{Mode: mode, TempDir: tmpDir})
	case "fstreeput":
		s, serr := fstree.NewFSTree("simdb", e.root)
		if serr != nil {
			return serr
		}
		w, _ := record.NewWrapper("simdb:sub/dest.bin", &record.Meta{}, dsd.RAW, data)
		_, err = s.Put(w)
		return err
	}
	return nil
}

// explicitTmpPrim: primitives that take the temporary directory from the caller.
func explicitTmpPrim(prim string) bool {
	switch prim {
	case "tempfile", "createatomic", "copyatomic", "replaceatomic":
		return true
	}
	return false
}

func lastCalls(calls []simfs.Call) string {
	var sb strings.Builder
	sb.WriteString(" | calls:")
	for _, c := range calls {
		if c.Mut {
			fmt.Fprintf(&sb, " %s(%s)%s", c.Op, filepath.Base(c.Paths[0]), c.Err)
		}
	}
	return sb.String()
}

func writeOld(p *FSPlan, e *fsEnv, data []byte, mode os.FileMode) {
	switch p.Prim {
	case "symlink":
		_ = os.Symlink("old-target", e.dest)
	case "fstreeput":
		w, _ := record.NewWrapper("simdb:sub/dest.bin", &record.Meta{}, dsd.RAW, data)
		b, _ := w.MarshalRecord(w)
		_ = os.WriteFile(e.dest, b, mode)
	default:
		_ = os.WriteFile(e.dest, data, mode)
	}
}

// readState returns a string describing the destination (content + mode class), and whether it exists.
func readState(p *FSPlan, e *fsEnv) (string, bool) {
	if p.Prim == "symlink" {
		t, err := os.Readlink(e.dest)
		if err != nil {
			return "", false
		}
		return "link:" + t, true
	}
	if p.Prim == "unpackzip" {
		return dirState(e.dest)
	}
	return fileState(p, e)
}

// dirState describes an unpacked directory (names, sizes and content hashes of everything below it).
func dirState(dest string) (string, bool) {
	{
		if fi, err := os.Stat(dest); err != nil || !fi.IsDir() {
			return "", false
		}
		var sb strings.Builder
		_ = filepath.Walk(dest, func(path string, info os.FileInfo, err error) error {
			if err != nil {
				return nil
			}
			rel, _ := filepath.Rel(dest, path)
			if info.IsDir() {
				fmt.Fprintf(&sb, "%s/;", rel)
				return nil
			}
			b, _ := os.ReadFile(path)
			fmt.Fprintf(&sb, "%s=%d:%x;", rel, len(b), simpleHash(b))
			return nil
		})
		return sb.String(), true
	}
}

// fileState describes a single destination file (content or sampled content, and its mode class).
func fileState(p *FSPlan, e *fsEnv) (string, bool) {
	fi, serr := os.Stat(e.dest)
	if serr == nil && fi.Size() > 512<<10 {
		// a multi-megabyte file, read by several readers at every step of every fault case: sample it (size, head,
		// tail and evenly spaced blocks; the content is position dependent, so a missing or shifted part shows)
		f, err := os.Open(e.dest)
		if err != nil {
			return "", false
		}
		defer f.Close()
		var h uint64 = 1469598103934665603
		buf := make([]byte, 4096)
		n := fi.Size()
		for k := int64(0); k < 16; k++ {
			off := (n - int64(len(buf))) * k / 15
			m, _ := f.ReadAt(buf, off)
			h = h*1099511628211 ^ simpleHash(buf[:m])
		}
		if p.Prim == "fetch" {
			return fmt.Sprintf("%d:s%x", n, h), true
		}
		return fmt.Sprintf("%v:%d:s%x", fi.Mode().Perm(), n, h), true
	}
	b, err := os.ReadFile(e.dest)
	if err != nil || serr != nil {
		return "", false
	}
	if p.Prim == "fetch" {
		// the download path sets the final mode after the rename (documented TODO in the source): content only
		return fmt.Sprintf("%d:%x", len(b), simpleHash(b)), true
	}
	return fmt.Sprintf("%v:%d:%x", fi.Mode().Perm(), len(b), simpleHash(b)), true
}

func simpleHash(b []byte) uint64 {
	var h uint64 = 1469598103934665603
	for _, c := range b {
		h ^= uint64(c)
		h *= 1099511628211
	}
	return h
}

// checkFsyncBeforeRename: on the fault-free log, the temp file renamed onto the destination was fsynced after its last write.
func checkFsyncBeforeRename(calls []simfs.Call, dest string, rc *simkit.RunCtx, p *FSPlan) bool {
	for i, c := range calls {
		if c.Op != "rename" || len(c.Paths) < 2 || filepath.Clean(c.Paths[1]) != filepath.Clean(dest) {
			continue
		}
		src := c.Paths[0]
		lastWrite, lastSync := -1, -1
		for j := 0; j < i; j++ {
			if len(calls[j].Paths) > 0 && calls[j].Paths[0] == src {
				switch calls[j].Op {
				case "write", "fchmod":
					if calls[j].Op == "write" {
						lastWrite = j
					}
				case "fsync":
					lastSync = j
				}
			}
		}
		if lastSync < 0 || lastSync < lastWrite {
			rc.Fail("C17.no-fsync-before-rename", "the new content was renamed into place without being flushed to stable storage first ("+p.Prim+")",
				fmt.Sprintf("last write #%d, last fsync #%d, rename #%d", lastWrite, lastSync, i))
			return false
		}
		rc.Probe("fsync-before-rename-checked")
		return true
	}
	rc.Fail("C17.no-rename", "the destination was not published by a rename ("+p.Prim+")", "")
	return false
}

// strayFiles lists files that are neither the destination, nor fixtures, nor temp files in a temp location.
func strayFiles(p *FSPlan, e *fsEnv) string {
	var stray []string
	_ = filepath.Walk(e.base, func(path string, info os.FileInfo, err error) error {
		if err != nil || info.IsDir() {
			return nil
		}
		rel, _ := filepath.Rel(e.base, path)
		switch {
		case path == e.dest, rel == "outside/sentinel", rel == "outside/source.bin":
		case p.Dest == 4 && path == e.dest+".target":
		case strings.HasPrefix(path, e.dest+"/"):
		case strings.HasPrefix(rel, "root/tmp/"), rel == "root/res_v1-0-0.bin.gz", rel == "root/pkg_v1-0-0.zip":
		case strings.HasPrefix(path, e.tmp+"/"), strings.HasPrefix(path, e.exp+"/"):
		case filepath.Dir(path) == filepath.Dir(e.dest) && strings.HasPrefix(filepath.Base(path), ".") && !(p.Explicit && explicitTmpPrim(p.Prim)) && p.Prim != "unpackgz" && p.Prim != "fetch":
			// (downloads and unpacked files of a registry have the registry's tmp directory as their temporary location)
			// (without an explicitly named temporary directory the destination's directory is the temporary location)
		case strings.HasPrefix(filepath.Base(filepath.Dir(path)), ".") && filepath.Dir(filepath.Dir(path)) == filepath.Dir(e.dest):
			// temp dir of the symlink helper next to the destination
		default:
			stray = append(stray, rel)
		}
		return nil
	})
	sort.Strings(stray)
	return strings.Join(stray, ", ")
}

func (H) Check(prop string, plan any, rc *simkit.RunCtx) {
	if prop == "C18" {
		checkC18(plan.(*C18Plan), rc)
		return
	}
	s, _ := rc.Data.(*fsState)
	if s != nil {
		rc.H("executions=%d", s.executions)
		rc.Probes["fault-points-enumerated"] += s.points
	}
	if rc.Stats.Stalled {
		rc.Fail("C17.stall", "a file operation never returned", rc.Stats.StallInfo)
	}
	if rc.Stats.StepCap {
		rc.Inconcl = "step-cap"
	}
}
