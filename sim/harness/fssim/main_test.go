//go:debug asynctimerchan=0
package fssim

import (
	"testing"

	"github.com/safing/portbase/verifsim/simkit"
)

func TestSim(t *testing.T) { simkit.Main(t, "fssim", H{}) }
