package fssim

import (
	"archive/zip"
	"bytes"
	"compress/flate"
	"compress/gzip"
	"errors"
	"fmt"
	"hash/crc32"
	"io"
	"net/http"
	"os"
	"path/filepath"

	"github.com/safing/portbase/updater"
	"github.com/safing/portbase/utils"
)

// scriptedTransport serves the download according to a per-attempt script.
type scriptedTransport struct {
	body    []byte
	script  []int
	attempt int
}

type faultyBody struct {
	r      io.Reader
	failAt int
	read   int
}

func (b *faultyBody) Read(p []byte) (int, error) {
	if b.failAt >= 0 && b.read >= b.failAt {
		return 0, errors.New("injected transport error in the middle of the body")
	}
	if len(p) > 4096 {
		p = p[:4096]
	}
	n, err := b.r.Read(p)
	b.read += n
	return n, err
}
func (b *faultyBody) Close() error { return nil }

func (t *scriptedTransport) RoundTrip(req *http.Request) (*http.Response, error) {
	mode := 0
	if t.attempt < len(t.script) {
		mode = t.script[t.attempt]
	}
	t.attempt++
	resp := &http.Response{StatusCode: 200, Status: "200 OK", Proto: "HTTP/1.1", ProtoMajor: 1, ProtoMinor: 1, Header: http.Header{}, Request: req, ContentLength: int64(len(t.body))}
	switch mode {
	case 1: // truncated: fewer bytes than announced, then EOF
		resp.Body = &faultyBody{r: bytes.NewReader(t.body[:len(t.body)/2]), failAt: -1}
	case 2: // error in the middle of the body
		resp.Body = &faultyBody{r: bytes.NewReader(t.body), failAt: len(t.body) / 2}
	case 3:
		resp.StatusCode, resp.Status = 500, "500 Internal Server Error"
		resp.Body = io.NopCloser(bytes.NewReader(nil))
	case 4: // more bytes than announced
		resp.Body = &faultyBody{r: bytes.NewReader(append(append([]byte(nil), t.body...), []byte("TRAILING GARBAGE")...)), failAt: -1}
	case 5: // close-delimited response (no Content-Length) whose connection drops half way
		resp.ContentLength = -1
		resp.Body = &faultyBody{r: bytes.NewReader(t.body[:len(t.body)/2]), failAt: -1}
	case 6: // a mirror that answers with a part of the file (206) and announces the length of that part
		part := t.body[:len(t.body)/3]
		resp.StatusCode, resp.Status, resp.ContentLength = 206, "206 Partial Content", int64(len(part))
		resp.Body = &faultyBody{r: bytes.NewReader(part), failAt: -1}
	case 7: // ... or with no content at all (204)
		resp.StatusCode, resp.Status, resp.ContentLength = 204, "204 No Content", 0
		resp.Body = io.NopCloser(bytes.NewReader(nil))
	default:
		resp.Body = &faultyBody{r: bytes.NewReader(t.body), failAt: -1}
	}
	return resp, nil
}

var savedTransport http.RoundTripper

// prepareRegistry builds a registry below e.root (before the recorded execution starts).
func prepareRegistry(p *FSPlan, e *fsEnv, newData []byte) (*updater.ResourceRegistry, *updater.Resource, error) {
	reg := &updater.ResourceRegistry{Name: "sim", UpdateURLs: []string{"http://updates.sim/"}, Online: true}
	if err := reg.Initialize(utils.NewDirStructure(e.root, 0o755)); err != nil {
		return nil, nil, err
	}
	switch p.Prim {
	case "fetch":
		if savedTransport == nil {
			savedTransport = http.DefaultTransport
		}
		http.DefaultTransport = &scriptedTransport{body: newData, script: p.Net}
		if err := reg.AddResource("res.bin", "1.0.0", nil, false, false, false); err != nil {
			return nil, nil, err
		}
		reg.SelectVersions()
	case "unpackgz":
		var buf bytes.Buffer
		zw := gzip.NewWriter(&buf)
		_, _ = zw.Write(newData)
		_ = zw.Close()
		if err := os.WriteFile(filepath.Join(e.root, "res_v1-0-0.bin.gz"), buf.Bytes(), 0o644); err != nil {
			return nil, nil, err
		}
		if err := reg.AddResource("res.bin.gz", "1.0.0", nil, true, false, false); err != nil {
			return nil, nil, err
		}
		reg.SelectVersions()
	case "unpackzip":
		f, err := os.Create(filepath.Join(e.root, "pkg_v1-0-0.zip"))
		if err != nil {
			return nil, nil, err
		}
		zw := zip.NewWriter(f)
		for i, name := range []string{"a.txt", "dir/", "dir/b.bin", "dir/sub/", "dir/sub/c.bin"} {
			w, err := zw.Create(name)
			if err != nil {
				return nil, nil, err
			}
			if name[len(name)-1] != '/' {
				_, _ = w.Write(append([]byte(fmt.Sprintf("entry %d ", i)), newData...))
			}
		}
		if p.corruptArchive {
			// one more entry whose deflate stream ends half way although the header announces all of it
			full := make([]byte, 200000)
			for i := range full {
				full[i] = byte('a' + (i*7+i/13)%26)
			}
			var comp bytes.Buffer
			fw, _ := flate.NewWriter(&comp, flate.DefaultCompression)
			_, _ = fw.Write(full)
			_ = fw.Close()
			cut := comp.Bytes()[:comp.Len()/2]
			raw, err := zw.CreateRaw(&zip.FileHeader{Name: "dir/cut.bin", Method: zip.Deflate, CRC32: crc32.ChecksumIEEE(full),
				CompressedSize64: uint64(len(cut)), UncompressedSize64: uint64(len(full))})
			if err != nil {
				return nil, nil, err
			}
			_, _ = raw.Write(cut)
		}
		_ = zw.Close()
		_ = f.Close()
		if err := reg.AddResource("pkg.zip", "1.0.0", nil, true, false, false); err != nil {
			return nil, nil, err
		}
		reg.SelectVersions()
		res, ok := reg.VerifSimResource("pkg.zip")
		if !ok || res.SelectedVersion == nil {
			return nil, nil, errors.New("archive resource not selectable")
		}
		return reg, res, nil
	}
	return reg, nil, nil
}
