package dbsim

import (
	"errors"
	"fmt"
	"github.com/safing/portbase/runtime"
	"math/rand/v2"
	"sort"
	"strings"
	"time"

	"github.com/safing/portbase/database"
	"github.com/safing/portbase/database/query"
	"github.com/safing/portbase/database/record"
	"github.com/safing/portbase/database/storage"
	"github.com/safing/portbase/formats/dsd"
	"github.com/safing/portbase/verifsim/simkit"
	"github.com/safing/portbase/verifsim/simrt"
)

// C14Plan: subscriptions and hooks under concurrent writers.
type C14Plan struct {
	Backend string     `json:"backend"`
	Shadow  bool       `json:"shadow,omitempty"`
	RegLate bool       `json:"reg_late,omitempty"` // the injected database is a runtime registry whose provider was registered before it was injected
	Subs    []SubSpec  `json:"subs,omitempty"`
	Hooks   []HookSpec `json:"hooks,omitempty"`
	Writers [][]WOp    `json:"writers"`
	// ShutFirst: the database system is shut down before the subscriptions that are still active are cancelled
	// (a component that cleans up late): after cancel returns the feed is closed all the same
	ShutFirst bool `json:"shut_first,omitempty"`
	// Fill: one subscriber that sees everything does not read until exactly as many matching records were written as
	// its feed holds (the last of them finds one free place: the buffer is not full), then reads on
	Fill bool `json:"fill,omitempty"`
	// Cold: nothing has used the database before; its first uses (the first Subscribe / RegisterHook and a read by
	// another goroutine) happen at the same moment
	Cold bool `json:"cold,omitempty"`
}

// SubSpec describes one subscription.
type SubSpec struct {
	Prefix      int   `json:"prefix"`
	Cond        *Cond `json:"cond,omitempty"`
	Local       bool  `json:"local"`
	Internal    bool  `json:"internal"`
	CancelAfter int   `json:"cancel_after"` // sleepLadder index after which the subscription is cancelled; -1 never
	Twice       bool  `json:"twice,omitempty"`
	SameQueryAs int   `json:"same_query_as"` // -1, or index of an earlier subscription whose query object is reused
	Injected    bool  `json:"injected,omitempty"`
}

// HookSpec describes one hook.
type HookSpec struct {
	Prefix      int    `json:"prefix"`
	Cond        *Cond  `json:"cond,omitempty"`
	PreGet      bool   `json:"pre_get,omitempty"`
	PostGet     bool   `json:"post_get,omitempty"`
	PrePut      bool   `json:"pre_put,omitempty"`
	Action      string `json:"action,omitempty"` // "" pass | veto | replace
	CancelAfter int    `json:"cancel_after"`
	SameQueryAs int    `json:"same_query_as"`
	Slow        bool   `json:"slow,omitempty"` // the hook takes a millisecond (and lets other goroutines run meanwhile)
	// ObjectOf >= 0: this registration hands in the very Hook object of that earlier registration (one object
	// watching two disjoint key ranges); -1 otherwise
	ObjectOf int `json:"object_of"`
}

// WOp is a writer operation.
type WOp struct {
	Kind  string `json:"k"` // put delete get push sleep
	Key   int    `json:"key"`
	Seed  int    `json:"seed,omitempty"`
	Flags int    `json:"flags,omitempty"` // 0 none 1 secret 2 crown 3 both
	Arg   int    `json:"arg,omitempty"`
	Raw   bool   `json:"raw,omitempty"` // put: the record is a wrapper of raw bytes (no fields: it matches queries without a condition only)
}

// pairs of prefixPool indices that no key of keyPool matches both
var disjointPrefixes = [][2]int{{1, 3}, {3, 6}, {1, 5}, {10, 4}, {6, 1}, {4, 10}}

var c14Sleep = []time.Duration{0, time.Millisecond, 5 * time.Millisecond, 30 * time.Millisecond}

func genC14(rng *rand.Rand, tier string) *C14Plan {
	p := &C14Plan{Backend: []string{"hashmap", "hashmap", "fstree", "bbolt"}[rng.IntN(4)], Shadow: rng.IntN(2) == 0, RegLate: rng.IntN(4) == 0}
	if rng.IntN(25) == 0 {
		// hooks around the life of one record: stored, read, deleted, read (the deleted record may still be kept in
		// storage), stored again, read
		k := rng.IntN(len(keyPool))
		p.RegLate = false
		p.Hooks = []HookSpec{{Prefix: 0, PreGet: rng.IntN(2) == 0, PostGet: true, PrePut: rng.IntN(2) == 0, CancelAfter: -1, SameQueryAs: -1, ObjectOf: -1}}
		var ops []WOp
		for _, kind := range []string{"put", "get", "delete", "get", "get", "put", "get"} {
			ops = append(ops, WOp{Kind: kind, Key: k, Seed: rng.IntN(1 << 20)})
		}
		p.Writers = [][]WOp{ops}
		return p
	}
	if rng.IntN(60) == 0 {
		p.Backend, p.RegLate, p.Fill = "hashmap", false, true
		p.Subs = []SubSpec{{Prefix: 0, Local: true, Internal: true, CancelAfter: -1, SameQueryAs: -1}}
		p.Writers = [][]WOp{{{Kind: "put", Key: rng.IntN(len(keyPool)), Seed: rng.IntN(1000)}}}
		return p
	}
	hookActions := rng.IntN(3) == 0
	ns := 1 + rng.IntN(4)
	if hookActions {
		ns = rng.IntN(2) // hooks that veto or replace, watched by at most one all-seeing subscriber
	}
	for i := 0; i < ns; i++ {
		s := SubSpec{Prefix: rng.IntN(len(prefixPool)), Local: rng.IntN(3) != 0, Internal: rng.IntN(3) != 0, CancelAfter: -1, SameQueryAs: -1}
		if hookActions {
			p.Subs = append(p.Subs, SubSpec{Prefix: 0, Local: true, Internal: true, CancelAfter: -1, SameQueryAs: -1})
			continue
		}
		if rng.IntN(3) == 0 {
			s.Cond = genCond(rng, 1)
		}
		if rng.IntN(2) == 0 {
			s.CancelAfter = rng.IntN(len(c14Sleep))
			s.Twice = rng.IntN(4) == 0
		}
		if i > 0 && rng.IntN(4) == 0 {
			s.SameQueryAs = rng.IntN(i)
			s.Prefix, s.Cond, s.Injected = p.Subs[s.SameQueryAs].Prefix, p.Subs[s.SameQueryAs].Cond, p.Subs[s.SameQueryAs].Injected
		} else if rng.IntN(6) == 0 {
			s.Injected = true
			s.Prefix, s.Cond = 0, nil
		}
		p.Subs = append(p.Subs, s)
	}
	nh := rng.IntN(4)
	if hookActions {
		nh = 1 + rng.IntN(2)
	}
	for i := 0; i < nh; i++ {
		h := HookSpec{Prefix: rng.IntN(len(prefixPool)), PreGet: rng.IntN(2) == 0, PostGet: rng.IntN(2) == 0, PrePut: rng.IntN(2) == 0, CancelAfter: -1, SameQueryAs: -1, Slow: rng.IntN(3) == 0, ObjectOf: -1}
		if rng.IntN(3) == 0 {
			h.Cond = genCond(rng, 1)
		}
		if hookActions {
			h.Action = []string{"veto", "replace"}[rng.IntN(2)]
		} else if rng.IntN(2) == 0 {
			h.CancelAfter = rng.IntN(len(c14Sleep))
		}
		if i > 0 && rng.IntN(4) == 0 {
			h.SameQueryAs = rng.IntN(i)
			h.Prefix, h.Cond = p.Hooks[h.SameQueryAs].Prefix, p.Hooks[h.SameQueryAs].Cond
		} else if i > 0 && !hookActions && rng.IntN(3) == 0 {
			// the same Hook object registered for a second, disjoint key range
			j := rng.IntN(i)
			taken := false
			for _, x := range p.Hooks {
				if x.ObjectOf == j {
					taken = true
				}
			}
			if o := p.Hooks[j]; o.ObjectOf < 0 && o.SameQueryAs < 0 && !taken {
				pair := disjointPrefixes[rng.IntN(len(disjointPrefixes))]
				p.Hooks[j].Prefix, p.Hooks[j].Cond = pair[0], nil
				h.Prefix, h.Cond = pair[1], nil
				h.PreGet, h.PostGet, h.PrePut, h.Slow, h.Action = o.PreGet, o.PostGet, o.PrePut, o.Slow, o.Action
				h.ObjectOf = j
				for k := range p.Hooks {
					if p.Hooks[k].SameQueryAs == j {
						p.Hooks[k].Prefix, p.Hooks[k].Cond = pair[0], nil
					}
				}
			}
		}
		p.Hooks = append(p.Hooks, h)
	}
	p.ShutFirst = rng.IntN(6) == 0
	p.Cold = !p.RegLate && rng.IntN(4) == 0
	nw := 1 + rng.IntN(3)
	if hookActions {
		nw = 1
	}
	for w := 0; w < nw; w++ {
		var ops []WOp
		n := 1 + rng.IntN(10)
		for i := 0; i < n; i++ {
			op := WOp{Kind: []string{"put", "put", "put", "delete", "get", "push", "sleep"}[rng.IntN(7)], Key: rng.IntN(len(keyPool)), Seed: rng.IntN(1 << 20), Arg: rng.IntN(len(c14Sleep))}
			op.Raw = op.Kind == "put" && !hookActions && rng.IntN(6) == 0
			if rng.IntN(4) == 0 {
				op.Flags = rng.IntN(4)
			}
			ops = append(ops, op)
		}
		p.Writers = append(p.Writers, ops)
	}
	return p
}

type wrec struct {
	G             int
	Writer        int
	Kind          string
	Key           string
	ID            string // event id: nonce, nonce#del
	F             Fields
	Secret, Crown bool
	Inv, Ret      uint64
	OK            bool
	Injected      bool
	Err           error
}

type feedRec struct {
	Seq uint64
	ID  string
}

type subState struct {
	spec                 SubSpec
	sub                  *database.Subscription
	subRet               uint64
	cancelInv, cancelRet uint64
	cancelled            bool
	feed                 []feedRec
	closedSeq            uint64
	closed               bool
}

type hookCall struct {
	G     int
	Phase string
	Key   string
	ID    string
	Seq   uint64
}

type hookState struct {
	spec                 HookSpec
	reg                  *database.RegisteredHook
	regRet               uint64
	cancelInv, cancelRet uint64
	cancelled            bool
	calls                []hookCall
	s                    *c14State
	idx                  int
	obj                  *hookState   // the Hook object handed to RegisterHook (h itself unless ObjectOf is set)
	aliases              []*hookState // registrations that handed in this object for another key range
}

// route: the registration a call for dbKey belongs to (the key ranges of one object are disjoint)
func (h *hookState) route(dbKey string) *hookState {
	for _, a := range h.aliases {
		if strings.HasPrefix(dbKey, prefixPool[a.spec.Prefix]) {
			return a
		}
	}
	return h
}

func (h *hookState) UsesPreGet() bool  { return h.spec.PreGet }
func (h *hookState) UsesPostGet() bool { return h.spec.PostGet }
func (h *hookState) UsesPrePut() bool  { return h.spec.PrePut }

var errVeto = errors.New("vetoed by harness hook")

// slow: a hook that takes a moment; the call is recorded when the hook body runs, after the pause.
func (h *hookState) slow() {
	if h.spec.Slow {
		time.Sleep(time.Millisecond)
	}
}

func (h *hookState) PreGet(dbKey string) error {
	h.slow()
	h = h.route(dbKey)
	h.calls = append(h.calls, hookCall{G: simrt.GID(), Phase: "preget", Key: dbKey, Seq: simrt.Seq()})
	if h.spec.Action == "veto" && h.spec.PreGet && !h.spec.PostGet && !h.spec.PrePut {
		return errVeto
	}
	return nil
}

func idOfLocked(r record.Record) string {
	acc := r.GetAccessor(r)
	id := "?"
	if acc != nil {
		id, _ = acc.GetString("N")
	} else if w, ok := r.(*record.Wrapper); ok && w.Format == dsd.RAW {
		id = string(w.Data)
	}
	if r.Meta() != nil && r.Meta().IsDeleted() {
		id += "#del"
	}
	return id
}

func (h *hookState) PostGet(r record.Record) (record.Record, error) {
	h.slow()
	h = h.route(r.DatabaseKey())
	h.calls = append(h.calls, hookCall{G: simrt.GID(), Phase: "postget", Key: r.DatabaseKey(), ID: idOfLocked(r), Seq: simrt.Seq()})
	switch h.spec.Action {
	case "veto":
		if h.spec.PostGet && !h.spec.PrePut {
			return nil, errVeto
		}
	case "replace":
		if !h.spec.PrePut {
			nr := makeRecord(r.DatabaseKey(), "replaced-by-postget", Fields{S: "replaced"}, false)
			nr.SetMeta(r.Meta().Duplicate())
			return nr, nil
		}
	}
	return r, nil
}

func (h *hookState) PrePut(r record.Record) (record.Record, error) {
	h.slow()
	h = h.route(r.DatabaseKey())
	h.calls = append(h.calls, hookCall{G: simrt.GID(), Phase: "preput", Key: r.DatabaseKey(), ID: idOfLocked(r), Seq: simrt.Seq()})
	switch h.spec.Action {
	case "veto":
		if h.spec.PrePut {
			return nil, errVeto
		}
	case "replace":
		if h.spec.PrePut {
			nr := makeRecord(r.DatabaseKey(), "replaced-by-preput", Fields{S: "replaced"}, false)
			nr.SetMeta(r.Meta().Duplicate())
			return nr, nil
		}
	}
	return r, nil
}

type injStorage struct {
	storage.InjectBase
}

func (injStorage) Get(key string) (record.Record, error) { return nil, storage.ErrNotFound }

type c14State struct {
	p          *C14Plan
	rc         *simkit.RunCtx
	subs       []*subState
	hooks      []*hookState
	writes     []*wrec
	gets       []*wrec
	injCtl     *database.Controller
	push       func(record.Record)
	pushPrefix string
	fillGate   chan struct{} // Fill: closed when the feed has been filled
}

func execC14(p *C14Plan, rc *simkit.RunCtx) {
	s := &c14State{p: p, rc: rc}
	if p.Fill {
		s.fillGate = make(chan struct{})
	}
	rc.Data = s
	dir, err := openDB(p.Backend, p.Shadow)
	if err != nil {
		rc.Fail("C14.harness", "could not open database", err.Error())
		return
	}
	defer closeDB(dir)
	if _, err := database.Register(&database.Database{Name: "injdb", Description: "injected", StorageType: database.StorageTypeInjected}); err != nil {
		rc.Fail("C14.harness", "register injected database", err.Error())
		return
	}
	if p.RegLate {
		reg := runtime.NewRegistry()
		push, rerr := reg.Register("vals/", runtime.SimpleValueGetterFunc(func(string) ([]record.Record, error) { return nil, nil }))
		if rerr != nil {
			rc.Fail("C14.harness", "register runtime provider", rerr.Error())
			return
		}
		if err := reg.InjectAsDatabase("injdb"); err != nil {
			rc.Fail("C14.harness", "inject runtime registry", err.Error())
			return
		}
		s.push = func(r record.Record) { push(r) }
		s.pushPrefix = "vals/"
		rc.Probe("registry-provider-registered-before-injection")
	} else {
		s.injCtl, err = database.InjectDatabase("injdb", &injStorage{})
		if err != nil {
			rc.Fail("C14.harness", "inject database", err.Error())
			return
		}
		s.push = func(r record.Record) { s.injCtl.PushUpdate(r) }
	}
	priv := database.NewInterface(&database.Options{Local: true, Internal: true})
	// make sure the controller exists before subscribing
	if p.Cold {
		coldDone := make(chan struct{})
		go func() {
			defer close(coldDone)
			_, _ = priv.Get(dbName + ":warmup")
		}()
		defer func() { <-coldDone }()
		rc.Probe("first-uses-of-the-database-at-the-same-moment")
	} else {
		_, _ = priv.Get(dbName + ":warmup")
	}
	var queries []*query.Query
	for i, sp := range p.Subs {
		var q *query.Query
		if sp.SameQueryAs >= 0 {
			q = queries[sp.SameQueryAs]
		} else if sp.Injected {
			q = query.New("injdb:")
		} else {
			q = buildQuery(prefixPool[sp.Prefix], sp.Cond)
		}
		queries = append(queries, q)
		iface := database.NewInterface(&database.Options{Local: sp.Local, Internal: sp.Internal})
		sub, err := iface.Subscribe(q)
		if err != nil {
			rc.Fail("C14.harness", "subscribe failed", err.Error())
			return
		}
		s.subs = append(s.subs, &subState{spec: sp, sub: sub, subRet: simrt.Seq()})
		_ = i
	}
	var hq []*query.Query
	for i, hs := range p.Hooks {
		var q *query.Query
		if hs.SameQueryAs >= 0 {
			q = hq[hs.SameQueryAs]
		} else {
			q = buildQuery(prefixPool[hs.Prefix], hs.Cond)
		}
		hq = append(hq, q)
		h := &hookState{spec: hs, s: s, idx: i}
		h.obj = h
		if hs.ObjectOf >= 0 && hs.ObjectOf < len(s.hooks) {
			h.obj = s.hooks[hs.ObjectOf]
			h.obj.aliases = append(h.obj.aliases, h)
			rc.Probe("hook-object-registered-twice")
		}
		reg, err := database.RegisterHook(q, h.obj)
		if err != nil {
			rc.Fail("C14.harness", "RegisterHook failed", err.Error())
			return
		}
		h.reg, h.regRet = reg, simrt.Seq()
		s.hooks = append(s.hooks, h)
	}
	n := 0
	done := make(chan struct{}, 64)
	// subscriber drains
	for _, ss := range s.subs {
		ss := ss
		n++
		go func() {
			defer func() { done <- struct{}{} }()
			if s.fillGate != nil {
				<-s.fillGate
			}
			for r := range ss.sub.Feed {
				r.Lock()
				id := idOfLocked(r)
				r.Unlock()
				ss.feed = append(ss.feed, feedRec{Seq: simrt.Seq(), ID: id})
			}
			ss.closed, ss.closedSeq = true, simrt.Seq()
		}()
		if ss.spec.CancelAfter >= 0 {
			n++
			go func() {
				defer func() { done <- struct{}{} }()
				time.Sleep(c14Sleep[ss.spec.CancelAfter])
				ss.cancelInv = simrt.Seq()
				_ = ss.sub.Cancel()
				ss.cancelRet, ss.cancelled = simrt.Seq(), true
				if ss.spec.Twice {
					func() {
						defer func() {
							if r := recover(); r != nil {
								rc.Fail("C14.cancel-twice-panic", "a second Cancel of a subscription panicked", fmt.Sprint(r))
							}
						}()
						_ = ss.sub.Cancel()
					}()
				}
			}()
		}
	}
	for _, h := range s.hooks {
		h := h
		if h.spec.CancelAfter >= 0 {
			n++
			go func() {
				defer func() { done <- struct{}{} }()
				time.Sleep(c14Sleep[h.spec.CancelAfter])
				h.cancelInv = simrt.Seq()
				_ = h.reg.Cancel()
				h.cancelRet, h.cancelled = simrt.Seq(), true
			}()
		}
	}
	writersDone := make(chan struct{}, len(p.Writers))
	for wi, ops := range p.Writers {
		wi, ops := wi, ops
		go func() {
			defer func() { writersDone <- struct{}{} }()
			if p.Fill && len(s.subs) == 1 && len(ops) > 0 {
				// as many puts as the feed holds, none of them read yet
				op := ops[0]
				ops = nil
				iface := database.NewInterface(&database.Options{Local: true, Internal: true})
				for i, n := 0, cap(s.subs[0].sub.Feed); i < n; i++ {
					key := keyPool[(op.Key+i)%len(keyPool)]
					nonceCounter++
					nonce := fmt.Sprintf("n%d", nonceCounter)
					f := fieldsFromSeed(op.Seed + i)
					w := &wrec{Writer: wi, Kind: "put", Key: key, ID: nonce, F: f, Inv: simrt.Seq()}
					s.writes = append(s.writes, w)
					w.Err = iface.Put(makeRecord(key, nonce, f, i%2 == 0))
					w.Ret, w.OK = simrt.Seq(), w.Err == nil
				}
				rc.Probe("feed-filled-to-capacity")
				close(s.fillGate)
			}
			for _, op := range ops {
				key := keyPool[op.Key]
				switch op.Kind {
				case "sleep":
					time.Sleep(c14Sleep[op.Arg])
				case "put":
					nonceCounter++
					nonce := fmt.Sprintf("n%d", nonceCounter)
					f := fieldsFromSeed(op.Seed)
					r := makeRecord(key, nonce, f, op.Seed%2 == 0)
					if op.Raw {
						f = Fields{NoAcc: true}
						r, _ = record.NewWrapper(dbName+":"+key, &record.Meta{}, dsd.RAW, []byte(nonce))
						rc.Probe("raw-record-written")
					}
					iface := database.NewInterface(&database.Options{Local: true, Internal: true, AlwaysMakeSecret: op.Flags&1 != 0, AlwaysMakeCrownjewel: op.Flags&2 != 0})
					w := &wrec{Writer: wi, Kind: "put", Key: key, ID: nonce, F: f, Secret: op.Flags&1 != 0, Crown: op.Flags&2 != 0, Inv: simrt.Seq()}
					s.writes = append(s.writes, w)
					w.Err = iface.Put(r)
					w.Ret, w.OK = simrt.Seq(), w.Err == nil
				case "delete":
					w := &wrec{G: simrt.GID(), Writer: wi, Kind: "delete", Key: key, Inv: simrt.Seq()}
					s.writes = append(s.writes, w)
					w.Err = priv.Delete(dbName + ":" + key)
					w.Ret, w.OK = simrt.Seq(), w.Err == nil
				case "get":
					g := &wrec{G: simrt.GID(), Writer: wi, Kind: "get", Key: key, Inv: simrt.Seq()}
					s.gets = append(s.gets, g)
					r, err := priv.Get(dbName + ":" + key)
					g.Err = err
					if err == nil {
						g.ID = nonceOf(r)
					}
					g.Ret, g.OK = simrt.Seq(), err == nil
				case "push":
					nonceCounter++
					nonce := fmt.Sprintf("n%d", nonceCounter)
					r := &Rec{N: nonce}
					r.SetKey("injdb:" + s.pushPrefix + key)
					r.CreateMeta()
					w := &wrec{Writer: wi, Kind: "push", Key: key, ID: nonce, Injected: true, Inv: simrt.Seq()}
					s.writes = append(s.writes, w)
					s.push(r)
					w.Ret, w.OK = simrt.Seq(), true
				}
			}
		}()
	}
	for range p.Writers {
		<-writersDone
	}
	// cancel what is left so that the drains end
	time.Sleep(50 * time.Millisecond)
	if p.ShutFirst {
		_ = database.Shutdown()
		rc.Probe("cancel-after-database-shutdown")
	}
	for _, ss := range s.subs {
		if ss.spec.CancelAfter < 0 {
			ss.cancelInv = simrt.Seq()
			_ = ss.sub.Cancel()
			ss.cancelRet, ss.cancelled = simrt.Seq(), true
		}
	}
	simrt.AwaitQuiescence(5 * time.Second)
}

func checkC14(p *C14Plan, rc *simkit.RunCtx) {
	s, _ := rc.Data.(*c14State)
	if s == nil {
		return
	}
	rc.H("backend=%s subs=%d hooks=%d writes=%d", p.Backend, len(s.subs), len(s.hooks), len(s.writes))
	for _, w := range s.writes {
		rc.H("w%d %s %s ok=%v", w.Writer, w.Kind, w.Key, w.OK)
	}
	for si, ss := range s.subs {
		rc.H("sub%d prefix=%q feed=%d cancelled=%v", si, prefixPool[ss.spec.Prefix], len(ss.feed), ss.cancelled)
	}
	for hi, h := range s.hooks {
		rc.H("hook%d calls=%d action=%s", hi, len(h.calls), h.spec.Action)
	}
	if rc.Stats.Stalled {
		rc.Fail("C14.stall", "a database call never returned", rc.Stats.StallInfo)
		return
	}
	if rc.Stats.StepCap {
		rc.Inconcl = "step-cap"
		return
	}
	sharedQ := false
	for _, sp := range p.Subs {
		if sp.SameQueryAs >= 0 {
			sharedQ = true
		}
	}
	note := ""
	if sharedQ {
		note = " (two subscriptions created from one query object)"
	}
	// model of the latest record per key is needed for delete events: replay writes in Ret order is ambiguous under
	// concurrency, so delete deliveries are only checked for "no foreign event" and order, not for exact identity.
	for si, ss := range s.subs {
		if ss.cancelled && !ss.closed {
			rc.Fail("C14.feed-not-closed", "the feed was not closed after Cancel returned"+note, fmt.Sprintf("subscription %d", si))
			return
		}
		withActions := false
		for _, h := range s.hooks {
			if h.spec.Action != "" {
				withActions = true
			}
		}
		if withActions {
			// what a subscriber is shown of a put that a pre-put hook vetoed or replaced: nothing, or the replacement
			for _, f := range ss.feed {
				id := strings.TrimSuffix(f.ID, "#del")
				if strings.HasPrefix(id, "replaced-by-") {
					rc.Probe("replacement-delivered")
					continue
				}
				var w *wrec
				for _, x := range s.writes {
					if x.ID == id {
						w = x
					}
				}
				if w == nil {
					rc.Fail("C14.foreign-delivery", "a record was delivered that no writer wrote"+note, fmt.Sprintf("subscription %d: %s", si, id))
					return
				}
				for hi, h := range s.hooks {
					if h.spec.Action != "" && h.spec.PrePut && w.Kind == "put" && strings.HasPrefix(w.Key, prefixPool[h.spec.Prefix]) && (h.spec.Cond == nil || h.spec.Cond.eval(w.F)) {
						what := "vetoed"
						if h.spec.Action == "replace" {
							what = "replaced"
						}
						rc.Fail("C14.hook-delivery", "a put that a pre-put hook had "+what+" was delivered to a subscriber in its original form", fmt.Sprintf("hook %d, put %s to %s", hi, w.ID, w.Key))
						return
					}
				}
			}
			continue
		}
		count := map[string]int{}
		pos := map[string]int{}
		for i, f := range ss.feed {
			// hashmap hands out the stored object itself: a put that is read from the feed after a
			// later delete already shows as deleted, so deliveries are identified by the nonce only
			id := strings.TrimSuffix(f.ID, "#del")
			count[id]++
			if _, seen := pos[id]; !seen {
				pos[id] = i
			}
		}
		known := map[string]*wrec{}
		deletes := map[string]int{}
		for _, w := range s.writes {
			if w.Kind == "put" || w.Kind == "push" {
				known[w.ID] = w
			}
			if w.Kind == "delete" && w.OK {
				deletes[w.Key]++
			}
		}
		for id, c := range count {
			w := known[id]
			if w == nil {
				rc.Fail("C14.foreign-delivery", "a record was delivered that no writer wrote"+note, fmt.Sprintf("subscription %d: %s", si, id))
				return
			}
			if c > 1+deletes[w.Key] {
				rc.Fail("C14.duplicate-delivery", "a write was delivered more than once"+note, fmt.Sprintf("subscription %d: %s x%d", si, id, c))
				return
			}
			if !s.matches(ss.spec, w) {
				what := "does not match the subscription's query"
				if (w.Secret && !ss.spec.Internal) || (w.Crown && !ss.spec.Local) {
					what = "the subscriber may not see (secret/crown jewel)"
				}
				rc.Fail("C14.wrong-delivery", "a record was delivered that "+what+note, fmt.Sprintf("subscription %d (%+v): %s key %s", si, ss.spec, id, w.Key))
				return
			}
		}
		// completeness and order for puts/pushes
		var must []*wrec
		for _, w := range s.writes {
			if !(w.Kind == "put" || w.Kind == "push") || !w.OK || !s.matches(ss.spec, w) {
				continue
			}
			if w.Inv > ss.subRet && (ss.cancelInv == 0 || w.Ret < ss.cancelInv) {
				if count[w.ID] < 1 {
					rc.Fail("C14.missing-delivery", "a matching write made while the subscription was active was not delivered"+note,
						fmt.Sprintf("subscription %d (%+v): write %s to %s", si, ss.spec, w.ID, w.Key))
					return
				}
				must = append(must, w)
			}
		}
		// deletes are deliveries too: a delete made while the subscription was active, of a key all of whose earlier
		// records the subscriber may see, shows up as (at least) one record of that key marked deleted
		for _, w := range s.writes {
			if w.Kind != "delete" || !w.OK || w.Inv <= ss.subRet || (ss.cancelInv != 0 && w.Ret >= ss.cancelInv) {
				continue
			}
			var cands []string
			all := true
			for _, pw := range s.writes {
				if pw.Kind == "put" && pw.OK && pw.Key == w.Key && pw.Inv < w.Ret {
					cands = append(cands, pw.ID)
					if !s.matches(ss.spec, pw) {
						all = false
					}
				}
			}
			if len(cands) == 0 || !all {
				continue
			}
			seen := false
			for _, f := range ss.feed {
				if !strings.HasSuffix(f.ID, "#del") || f.Seq < w.Inv {
					continue
				}
				for _, c := range cands {
					if f.ID == c+"#del" {
						seen = true
					}
				}
			}
			if !seen {
				rc.Fail("C14.missing-delivery", "a delete of a matching record made while the subscription was active was not delivered"+note,
					fmt.Sprintf("subscription %d (%+v): delete of %s", si, ss.spec, w.Key))
				return
			}
			rc.Probe("delete-delivery-checked")
		}
		sort.Slice(must, func(i, j int) bool { return must[i].Inv < must[j].Inv })
		for i := range must {
			for j := range must {
				if must[i].Ret < must[j].Inv && pos[must[i].ID] > pos[must[j].ID] {
					rc.Fail("C14.order", "two writes that did not overlap were delivered in the wrong order"+note, fmt.Sprintf("subscription %d: %s before %s", si, must[j].ID, must[i].ID))
					return
				}
			}
		}
		if len(must) > 0 {
			rc.Probe("deliveries-checked")
		}
	}
	s.checkHooks(note)
}

func (s *c14State) matches(sp SubSpec, w *wrec) bool {
	if sp.Injected != w.Injected {
		return false
	}
	if w.Injected {
		return true
	}
	if (w.Secret && !sp.Internal) || (w.Crown && !sp.Local) {
		return false
	}
	if !strings.HasPrefix(w.Key, prefixPool[sp.Prefix]) {
		return false
	}
	return sp.Cond == nil || sp.Cond.eval(w.F)
}

func (s *c14State) checkHooks(note string) {
	rc := s.rc
	p := s.p
	sharedH := false
	for _, h := range p.Hooks {
		if h.SameQueryAs >= 0 {
			sharedH = true
		}
	}
	hnote := ""
	if sharedH {
		hnote = " (two hooks registered with one query object)"
	}
	for hi, h := range s.hooks {
		prefix := prefixPool[h.spec.Prefix]
		for _, c := range h.calls {
			declared := (c.Phase == "preget" && h.spec.PreGet) || (c.Phase == "postget" && h.spec.PostGet) || (c.Phase == "preput" && h.spec.PrePut)
			if !declared {
				rc.Fail("C14.hook-undeclared-phase", "a hook was called in a phase it does not declare", fmt.Sprintf("hook %d %s", hi, c.Phase))
				return
			}
			if !strings.HasPrefix(c.Key, prefix) {
				rc.Fail("C14.hook-wrong-key", "a hook was called for a key outside its query", fmt.Sprintf("hook %d %s %s", hi, c.Phase, c.Key))
				return
			}
			if h.spec.Cond != nil && (c.Phase == "postget" || c.Phase == "preput") {
				// the record must satisfy the hook's condition
				base := strings.TrimSuffix(c.ID, "#del")
				for _, w := range s.writes {
					if w.Kind == "put" && w.ID == base && !h.spec.Cond.eval(w.F) {
						rc.Fail("C14.hook-wrong-record", "a hook was called for a record that does not match its query condition", fmt.Sprintf("hook %d %s %s (%s)", hi, c.Phase, c.Key, condStr(h.spec.Cond)))
						return
					}
				}
			}
			if h.cancelled && c.Seq > h.cancelRet {
				rc.Fail("C14.hook-after-cancel", "a hook was called after its Cancel returned"+hnote, fmt.Sprintf("hook %d %s %s", hi, c.Phase, c.Key))
				return
			}
		}
		// puts in the active window call PrePut exactly once if the record matches
		if h.spec.PrePut && h.spec.Action == "" {
			for _, w := range s.writes {
				if w.Kind != "put" || !strings.HasPrefix(w.Key, prefix) || (h.spec.Cond != nil && !h.spec.Cond.eval(w.F)) {
					continue
				}
				n := 0
				for _, c := range h.calls {
					if c.Phase == "preput" && c.ID == w.ID {
						n++
					}
				}
				active := w.Inv > h.regRet && (h.cancelInv == 0 || w.Ret < h.cancelInv)
				if n > 1 || (active && n != 1) {
					rc.Fail("C14.hook-call-count", "a pre-put hook was not called exactly once for a matching put"+hnote, fmt.Sprintf("hook %d put %s: %d calls", hi, w.ID, n))
					return
				}
			}
		}
		// deletes are puts of the deleted record: a pre-put hook whose query has no condition sees every
		// successful delete of a key under its prefix exactly once
		if h.spec.PrePut && h.spec.Cond == nil {
			for _, w := range s.writes {
				if w.Kind != "delete" || !strings.HasPrefix(w.Key, prefix) {
					continue
				}
				n := 0
				for _, c := range h.calls {
					if c.Phase == "preput" && c.G == w.G && c.Key == w.Key && c.Seq > w.Inv && c.Seq < w.Ret {
						n++
					}
				}
				active := w.Inv > h.regRet && (h.cancelInv == 0 || w.Ret < h.cancelInv)
				if h.spec.Action == "" && w.OK && active && n != 1 {
					rc.Fail("C14.hook-call-count", "a pre-put hook was not called exactly once for a matching delete"+hnote, fmt.Sprintf("hook %d delete %s: %d calls", hi, w.Key, n))
					return
				}
				if h.spec.Action == "veto" && w.OK && active && len(s.hooks) == 1 {
					rc.Fail("C14.veto-ignored", "a delete vetoed by a pre-put hook succeeded", fmt.Sprintf("hook %d delete %s", hi, w.Key))
					return
				}
			}
		}
		if h.spec.PreGet && h.spec.Action == "" {
			for _, g := range s.gets {
				if !strings.HasPrefix(g.Key, prefix) {
					continue
				}
				n := 0
				for _, c := range h.calls {
					if c.Phase == "preget" && c.G == g.G && c.Key == g.Key && c.Seq > g.Inv && c.Seq < g.Ret {
						n++
					}
				}
				active := g.Inv > h.regRet && (h.cancelInv == 0 || g.Ret < h.cancelInv)
				if n > 1 || (active && n != 1) {
					rc.Fail("C14.hook-call-count", "a pre-get hook was not called exactly once for a matching get"+hnote, fmt.Sprintf("hook %d get %s: %d calls", hi, g.Key, n))
					return
				}
			}
		}
	}
	// post-get hooks: called once for every get whose loaded record matches - also when the loaded record is one that
	// was deleted and is still kept in storage (shadow delete): the get then reports not-found after the hook has seen it
	if len(p.Writers) == 1 {
		type kst struct {
			id      string
			f       Fields
			present bool // a record is in storage
			deleted bool
		}
		state := map[string]*kst{}
		type evt struct {
			inv uint64
			w   *wrec
			get bool
		}
		var evs []evt
		for _, w := range s.writes {
			evs = append(evs, evt{w.Inv, w, false})
		}
		for _, g := range s.gets {
			evs = append(evs, evt{g.Inv, g, true})
		}
		sort.Slice(evs, func(i, j int) bool { return evs[i].inv < evs[j].inv })
		clean := true // no hook that vetoes or replaces interferes with what is stored
		for _, h := range s.hooks {
			if h.spec.Action != "" {
				clean = false
			}
		}
		for _, e := range evs {
			if !clean {
				break
			}
			w := e.w
			switch {
			case !e.get && w.Kind == "put" && w.OK:
				state[w.Key] = &kst{id: w.ID, f: w.F, present: true}
			case !e.get && w.Kind == "delete" && w.OK:
				if st := state[w.Key]; st != nil {
					st.deleted = true
					st.present = p.Shadow
				}
			case e.get:
				st := state[w.Key]
				if st == nil || !st.present {
					continue
				}
				for hi, h := range s.hooks {
					if !h.spec.PostGet || !strings.HasPrefix(w.Key, prefixPool[h.spec.Prefix]) || (h.spec.Cond != nil && !h.spec.Cond.eval(st.f)) {
						continue
					}
					if st.deleted && h.spec.Cond != nil {
						// a deleted record that a serialising backend hands back carries no data any more: whether a
						// condition on its fields still holds depends on the backend (thorough tier, seed 61)
						continue
					}
					if !(w.Inv > h.regRet && (h.cancelInv == 0 || w.Ret < h.cancelInv)) {
						continue
					}
					n := 0
					for _, c := range h.calls {
						if c.Phase == "postget" && c.G == w.G && c.Seq > w.Inv && c.Seq < w.Ret {
							n++
						}
					}
					if n != 1 {
						what := "a stored record"
						if st.deleted {
							what = "a deleted record that is still kept in storage"
						}
						rc.Fail("C14.hook-call-count", "a post-get hook was not called exactly once for a get that loaded "+what+" matching its query"+hnote, fmt.Sprintf("hook %d get %s: %d calls", hi, w.Key, n))
						return
					}
					rc.Probe("post-get-hook-call-checked")
				}
			}
		}
	}
	// veto / replace semantics (single writer, hooks with actions)
	for hi, h := range s.hooks {
		if h.spec.Action == "" {
			continue
		}
		prefix := prefixPool[h.spec.Prefix]
		for _, w := range s.writes {
			if w.Kind != "put" || !h.spec.PrePut {
				continue
			}
			m := strings.HasPrefix(w.Key, prefix) && (h.spec.Cond == nil || h.spec.Cond.eval(w.F))
			if h.spec.Action == "veto" && m && (w.Err == nil || !errors.Is(w.Err, errVeto)) && len(s.hooks) == 1 {
				rc.Fail("C14.veto-ignored", "a put vetoed by a pre-put hook did not return the hook's error", fmt.Sprintf("hook %d put %s: %v", hi, w.ID, w.Err))
				return
			}
			if !m && w.Err != nil && errors.Is(w.Err, errVeto) && len(s.hooks) == 1 {
				rc.Fail("C14.veto-unmatched", "a put that does not match the hook's query was vetoed", fmt.Sprintf("hook %d put %s", hi, w.ID))
				return
			}
		}
		rc.Probe("hook-action-" + h.spec.Action)
	}
	// gets after vetoed puts must not see the vetoed data; gets after replaced puts see the replacement
	if len(s.hooks) == 1 && s.hooks[0].spec.Action != "" && s.hooks[0].spec.PrePut && len(p.Writers) == 1 {
		h := s.hooks[0]
		prefix := prefixPool[h.spec.Prefix]
		vetoed := map[string]bool{}
		for _, w := range s.writes {
			if w.Kind == "put" && strings.HasPrefix(w.Key, prefix) && (h.spec.Cond == nil || h.spec.Cond.eval(w.F)) {
				vetoed[w.ID] = true
			}
		}
		for _, g := range s.gets {
			if g.OK && vetoed[g.ID] && !h.spec.PostGet {
				what := "vetoed"
				if h.spec.Action == "replace" {
					what = "replaced"
				}
				rc.Fail("C14.hook-storage", "a get returned the original record of a put that a pre-put hook had "+what, fmt.Sprintf("get %s returned %s", g.Key, g.ID))
				return
			}
		}
	}
}

func shrinkC14(p *C14Plan) []any {
	var out []any
	clone := func() *C14Plan {
		q := *p
		q.Subs = append([]SubSpec(nil), p.Subs...)
		q.Hooks = append([]HookSpec(nil), p.Hooks...)
		q.Writers = nil
		for _, w := range p.Writers {
			q.Writers = append(q.Writers, append([]WOp(nil), w...))
		}
		return &q
	}
	for i := len(p.Subs) - 1; i >= 0; i-- {
		ref := false
		for _, s := range p.Subs {
			if s.SameQueryAs == i {
				ref = true
			}
		}
		if ref {
			continue
		}
		q := clone()
		q.Subs = append(q.Subs[:i], q.Subs[i+1:]...)
		for k := range q.Subs {
			if q.Subs[k].SameQueryAs > i {
				q.Subs[k].SameQueryAs--
			}
		}
		out = append(out, q)
	}
	for i := len(p.Hooks) - 1; i >= 0; i-- {
		ref := false
		for _, s := range p.Hooks {
			if s.SameQueryAs == i || s.ObjectOf == i {
				ref = true
			}
		}
		if ref {
			continue
		}
		q := clone()
		q.Hooks = append(q.Hooks[:i], q.Hooks[i+1:]...)
		for k := range q.Hooks {
			if q.Hooks[k].SameQueryAs > i {
				q.Hooks[k].SameQueryAs--
			}
			if q.Hooks[k].ObjectOf > i {
				q.Hooks[k].ObjectOf--
			}
		}
		out = append(out, q)
	}
	if len(p.Writers) > 1 {
		for i := range p.Writers {
			q := clone()
			q.Writers = append(q.Writers[:i], q.Writers[i+1:]...)
			out = append(out, q)
		}
	}
	for wi, w := range p.Writers {
		for oi := range w {
			if len(w) > 1 {
				q := clone()
				q.Writers[wi] = append(q.Writers[wi][:oi], q.Writers[wi][oi+1:]...)
				out = append(out, q)
			}
		}
	}
	if p.Backend != "hashmap" {
		q := clone()
		q.Backend = "hashmap"
		out = append(out, q)
	}
	for i, s := range p.Subs {
		if s.Cond != nil && s.SameQueryAs < 0 {
			q := clone()
			q.Subs[i].Cond = nil
			out = append(out, q)
		}
		if s.Twice {
			q := clone()
			q.Subs[i].Twice = false
			out = append(out, q)
		}
	}
	return out
}
