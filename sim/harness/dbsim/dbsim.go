// Package dbsim drives portbase/database inside the simulator: C02, C03, C14.
package dbsim

import (
	"context"
	"encoding/json"
	"errors"
	"fmt"
	"math/rand/v2"
	"os"
	"regexp"
	"sort"
	"strings"
	"sync"
	"time"

	"github.com/safing/portbase/database"
	"github.com/safing/portbase/database/query"
	"github.com/safing/portbase/database/record"
	_ "github.com/safing/portbase/database/storage/badger"
	_ "github.com/safing/portbase/database/storage/bbolt"
	_ "github.com/safing/portbase/database/storage/fstree"
	_ "github.com/safing/portbase/database/storage/hashmap"
	"github.com/safing/portbase/formats/dsd"
	"github.com/safing/portbase/log"
	"github.com/safing/portbase/verifsim/simkit"
	"github.com/safing/portbase/verifsim/simrt"
)

// H is the harness.
type H struct{}

const dbName = "testdb"

// Rec is the typed harness record.
type Rec struct {
	record.Base
	sync.Mutex

	N string // nonce: unique per write
	S string
	I int64
	F float64
	B bool
	A []string
	T NamedStr // a field of a named string type
}

// NamedStr is a named string type (struct accessor vs JSON accessor must agree on it).
type NamedStr string

// Fields are the queryable contents of a record.
type Fields struct {
	S string   `json:"S"`
	I int64    `json:"I"`
	F float64  `json:"F"`
	B bool     `json:"B"`
	A []string `json:"A"`
	T string   `json:"T"`
	// NoAcc: the record is a wrapper of raw bytes: it has no fields, no condition holds for it
	NoAcc bool `json:"-"`
}

var keyPool = []string{"a", "ab", "b/c", "b/d", "b/de", "bc", "c/x/y", "c/x/z", "c/xy", "d", "e:1", "e:2"}
var prefixPool = []string{"", "a", "b", "b/", "b/d", "c/x", "c/x/", "bc", "zz", "c", "e:", "e"}
var strPool = []string{"", "alpha", "beta", "alphabet", "x y", "Zed"}
var intPool = []int64{-5, 0, 1, 7, 42, 1 << 40, 1 << 53, 1<<53 + 1, 1<<62 + 3}
var floatPool = []float64{-1.5, 0, 0.5, 7, 1e9}

var runCounter int
var baseDir string

func (H) Reset() {
	log.VerifSimReset()
	database.VerifSimReset()
}

func (H) Tune(prop string, plan any, cfg *simrt.Config) {
	cfg.MaxSteps = 300000
	cfg.MaxAdvIdx = 2
	cfg.IdleBound = 10 * 24 * time.Hour // the workload itself sleeps for days of simulated time
	if p2, ok := plan.(*C02Plan); ok && p2.BgMaint {
		// The reference model stamps a record with the time at which its operation begins. With maintenance
		// interleaved an operation takes many more steps, and a clock step in the middle of it would make the
		// stamps differ by more than the model's tolerance: time only passes where the workload sleeps.
		cfg.PAdvance = 0
	}
}

func freshDir() string {
	if baseDir == "" {
		baseDir = fmt.Sprintf("dbsim-%d", os.Getpid())
	}
	runCounter++
	d := fmt.Sprintf("%s/run%d", baseDir, runCounter)
	_ = os.RemoveAll(d)
	_ = os.MkdirAll(d, 0o755)
	return d
}

func openDB(backend string, shadow bool) (string, error) {
	dir := freshDir()
	if err := database.InitializeWithPath(dir); err != nil {
		return dir, err
	}
	_, err := database.Register(&database.Database{Name: dbName, Description: "sim", StorageType: backend, ShadowDelete: shadow})
	return dir, err
}

func closeDB(dir string) {
	_ = database.Shutdown()
	_ = os.RemoveAll(dir)
}

// ---- conditions ----------------------------------------------------------------

// Cond is a generated query condition tree.
type Cond struct {
	Op   string   `json:"op"` // and or not | operator name
	Sub  []*Cond  `json:"sub,omitempty"`
	Key  string   `json:"key,omitempty"`
	IVal int64    `json:"i,omitempty"`
	FVal float64  `json:"f,omitempty"`
	SVal string   `json:"s,omitempty"`
	BVal bool     `json:"b,omitempty"`
	List []string `json:"list,omitempty"`
}

var intOps = map[string]uint8{"==": query.Equals, ">": query.GreaterThan, ">=": query.GreaterThanOrEqual, "<": query.LessThan, "<=": query.LessThanOrEqual}
var floatOps = map[string]uint8{"f==": query.FloatEquals, "f>": query.FloatGreaterThan, "f>=": query.FloatGreaterThanOrEqual, "f<": query.FloatLessThan, "f<=": query.FloatLessThanOrEqual}
var strOps = map[string]uint8{"sameas": query.SameAs, "contains": query.Contains, "startswith": query.StartsWith, "endswith": query.EndsWith}

func genCond(rng *rand.Rand, depth int) *Cond {
	if depth > 0 && rng.IntN(3) == 0 {
		switch rng.IntN(3) {
		case 0:
			return &Cond{Op: "not", Sub: []*Cond{genCond(rng, depth-1)}}
		case 1:
			return &Cond{Op: "and", Sub: []*Cond{genCond(rng, depth-1), genCond(rng, depth-1)}}
		default:
			return &Cond{Op: "or", Sub: []*Cond{genCond(rng, depth-1), genCond(rng, depth-1)}}
		}
	}
	switch rng.IntN(7) {
	case 0:
		ops := []string{"==", ">", ">=", "<", "<="}
		return &Cond{Op: ops[rng.IntN(len(ops))], Key: "I", IVal: intPool[rng.IntN(len(intPool))]}
	case 1:
		ops := []string{"f==", "f>", "f>=", "f<", "f<="}
		return &Cond{Op: ops[rng.IntN(len(ops))], Key: "F", FVal: floatPool[rng.IntN(len(floatPool))]}
	case 2:
		ops := []string{"sameas", "contains", "startswith", "endswith"}
		return &Cond{Op: ops[rng.IntN(len(ops))], Key: []string{"S", "S", "T"}[rng.IntN(3)], SVal: strPool[rng.IntN(len(strPool))]}
	case 3:
		return &Cond{Op: "in", Key: "S", List: []string{strPool[rng.IntN(len(strPool))], strPool[rng.IntN(len(strPool))]}}
	case 4:
		return &Cond{Op: "matches", Key: "S", SVal: []string{"^al", "a$", "^$", "e.a"}[rng.IntN(4)]}
	case 5:
		return &Cond{Op: "is", Key: "B", BVal: rng.IntN(2) == 0}
	default:
		return &Cond{Op: "exists", Key: []string{"S", "I", "Zz", "B"}[rng.IntN(4)]}
	}
}

func (c *Cond) build() query.Condition {
	switch c.Op {
	case "and":
		return query.And(c.Sub[0].build(), c.Sub[1].build())
	case "or":
		return query.Or(c.Sub[0].build(), c.Sub[1].build())
	case "not":
		return query.Not(c.Sub[0].build())
	case "in":
		return query.Where(c.Key, query.In, c.List)
	case "matches":
		return query.Where(c.Key, query.Matches, c.SVal)
	case "is":
		return query.Where(c.Key, query.Is, c.BVal)
	case "exists":
		return query.Where(c.Key, query.Exists, nil)
	}
	if op, ok := intOps[c.Op]; ok {
		return query.Where(c.Key, op, c.IVal)
	}
	if op, ok := floatOps[c.Op]; ok {
		return query.Where(c.Key, op, c.FVal)
	}
	return query.Where(c.Key, strOps[c.Op], c.SVal)
}

func (c *Cond) strField(f Fields) string {
	if c.Key == "T" {
		return f.T
	}
	return f.S
}

// eval is the independent evaluator written from the operator table in database/query/README.md.
func (c *Cond) eval(f Fields) bool {
	if f.NoAcc {
		return false
	}
	switch c.Op {
	case "and":
		return c.Sub[0].eval(f) && c.Sub[1].eval(f)
	case "or":
		return c.Sub[0].eval(f) || c.Sub[1].eval(f)
	case "not":
		return !c.Sub[0].eval(f)
	case "==":
		return f.I == c.IVal
	case ">":
		return f.I > c.IVal
	case ">=":
		return f.I >= c.IVal
	case "<":
		return f.I < c.IVal
	case "<=":
		return f.I <= c.IVal
	case "f==":
		return f.F == c.FVal
	case "f>":
		return f.F > c.FVal
	case "f>=":
		return f.F >= c.FVal
	case "f<":
		return f.F < c.FVal
	case "f<=":
		return f.F <= c.FVal
	case "sameas":
		return c.strField(f) == c.SVal
	case "contains":
		return strings.Contains(c.strField(f), c.SVal)
	case "startswith":
		return strings.HasPrefix(c.strField(f), c.SVal)
	case "endswith":
		return strings.HasSuffix(c.strField(f), c.SVal)
	case "in":
		for _, x := range c.List {
			if x == f.S {
				return true
			}
		}
		return false
	case "matches":
		ok, _ := regexp.MatchString(c.SVal, f.S)
		return ok
	case "is":
		return f.B == c.BVal
	case "exists":
		return c.Key != "Zz"
	}
	return false
}

// ---- reference model -------------------------------------------------------------

type mrec struct {
	Nonce                               string
	F                                   Fields
	Created, Modified, Expires, Deleted int64
	Secret, Crown                       bool
	flaggedAtWrite                      bool
	// Fuzzy: the expiry was computed from the clock while the clock's second changed during the write: it is
	// known only to within a second. RelDelayed: a relative expiry written through the delayed-write cache is
	// re-computed when the write is flushed, so the record may live longer than the model's value.
	Fuzzy, RelDelayed bool
}

// uncertain reports whether the visibility of the record cannot be decided at the given second.
func (m *mrec) uncertain(now int64) bool {
	if m == nil || m.Deleted != 0 || m.Expires <= 0 {
		return false
	}
	if m.Expires >= now-2 && m.Expires <= now+2 {
		return true
	}
	return m.RelDelayed && now >= m.Expires-2
}

func (m *mrec) visible(now int64) bool {
	if m == nil || m.Deleted > 0 {
		return false
	}
	return !(m.Expires > 0 && m.Expires < now)
}

func nowUnix() int64 { return time.Now().Unix() }

var nonceCounter int

func newFields(rng func(int) int) Fields {
	f := Fields{S: strPool[rng(len(strPool))], I: intPool[rng(len(intPool))], F: floatPool[rng(len(floatPool))], B: rng(2) == 0, A: []string{strPool[rng(len(strPool))]}}
	f.T = strPool[(len(f.S)+int(f.I&3))%len(strPool)]
	return f
}

// makeRecord builds a record object for a write: typed struct or JSON wrapper.
func makeRecord(key, nonce string, f Fields, wrapped bool) record.Record {
	full := dbName + ":" + key
	if wrapped {
		data, _ := json.Marshal(map[string]any{"N": nonce, "S": f.S, "I": f.I, "F": f.F, "B": f.B, "A": f.A, "T": f.T})
		w, _ := record.NewWrapper(full, &record.Meta{}, dsd.JSON, data)
		return w
	}
	r := &Rec{N: nonce, S: f.S, I: f.I, F: f.F, B: f.B, A: f.A, T: NamedStr(f.T)}
	r.SetKey(full)
	r.CreateMeta()
	return r
}

// nonceOf extracts the nonce from a record returned by the database.
func nonceOf(r record.Record) string {
	r.Lock()
	defer r.Unlock()
	acc := r.GetAccessor(r)
	if acc == nil {
		if w, ok := r.(*record.Wrapper); ok && w.Format == dsd.RAW {
			return string(w.Data) // raw records carry their nonce as their content
		}
		return "<no accessor>"
	}
	s, _ := acc.GetString("N")
	return s
}

func metaOf(r record.Record) (c, m, e, d int64, secret, crown bool) {
	r.Lock()
	defer r.Unlock()
	mt := r.Meta()
	if mt == nil {
		return
	}
	return mt.Created, mt.Modified, mt.Expires, mt.Deleted, !mt.CheckPermission(true, false), !mt.CheckPermission(false, true)
}

func errClass(err error) string {
	switch {
	case err == nil:
		return "ok"
	case errors.Is(err, database.ErrNotFound):
		return "notfound"
	case errors.Is(err, database.ErrPermissionDenied):
		return "denied"
	case errors.Is(err, database.ErrReadOnly):
		return "readonly"
	case errors.Is(err, database.ErrNotImplemented):
		return "notimplemented"
	}
	return "error:" + err.Error()
}

func drain(it interface {
	Err() error
}, next <-chan record.Record) ([]record.Record, error) {
	var out []record.Record
	for r := range next {
		out = append(out, r)
	}
	return out, it.Err()
}

func sortedKeys(m map[string]*mrec) []string {
	var ks []string
	for k := range m {
		ks = append(ks, k)
	}
	sort.Strings(ks)
	return ks
}

var _ = context.Background
var _ simkit.RunCtx
var _ = simrt.Now
