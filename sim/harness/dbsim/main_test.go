//go:debug asynctimerchan=0
package dbsim

import (
	"testing"

	"github.com/safing/portbase/verifsim/simkit"
)

func TestSim(t *testing.T) { simkit.Main(t, "dbsim", H{}) }
