package dbsim

import (
	"context"
	"errors"
	"fmt"
	"math/rand/v2"
	"sort"
	"strings"
	"time"

	"github.com/safing/portbase/database"
	"github.com/safing/portbase/database/iterator"
	"github.com/safing/portbase/database/query"
	"github.com/safing/portbase/database/record"
	"github.com/safing/portbase/verifsim/simkit"
	"github.com/safing/portbase/verifsim/simrt"
)

// C02Plan is one model-check history against one backend configuration.
type C02Plan struct {
	Backend   string  `json:"backend"`
	Shadow    bool    `json:"shadow,omitempty"`
	Cache     int     `json:"cache"` // 0 none, 1 read cache, 2 delayed-write cache
	CacheSize int     `json:"cache_size,omitempty"`
	Ops       []C02Op `json:"ops"`
	AlwaysAbs int     `json:"always_abs,omitempty"` // interface option AlwaysSetAbsoluteExpiry: now + this many seconds at open time (0 = off)
	AlwaysRel int     `json:"always_rel,omitempty"` // interface option AlwaysSetRelativateExpiry in seconds (0 = off)
	IterFault int     `json:"iter_fault,omitempty"` // >0: separate scenario: the backend query ends with an error after n-1 records
	FlushAPI  bool    `json:"flush_api,omitempty"`  // the delayed-write cache is flushed with Interface.FlushCache instead of by stopping its writer
	Slow      int     `json:"slow,omitempty"`       // slow-consumer scenario: number of records queried by a consumer that stalls after the first one
	BgMaint   bool    `json:"bg_maint,omitempty"`   // maintenance runs in the background, one pass per operation, at the same time as the operation (it never changes what is visible)
}

// C02Op is one interface operation.
type C02Op struct {
	Kind    string `json:"k"` // put putnew get exists delete putmany purge setabs setrel maintain maintainall query advance clearcache flush
	Key     int    `json:"key,omitempty"`
	Keys    []int  `json:"keys,omitempty"`
	Seed    int    `json:"seed,omitempty"` // content of the written record
	Wrapped bool   `json:"wrapped,omitempty"`
	Secs    int    `json:"secs,omitempty"`
	Prefix  int    `json:"prefix,omitempty"`
	Cond    *Cond  `json:"cond,omitempty"`
}

var secsPool = []int{-30, 0, 1, 5, 60, 3600, 86400 * 3}

func genC02(rng *rand.Rand, tier string) *C02Plan {
	p := &C02Plan{}
	switch r := rng.IntN(20); {
	case r < 8:
		p.Backend = "hashmap"
	case r < 13:
		p.Backend = "fstree"
	case r < 19:
		p.Backend = "bbolt"
	default:
		p.Backend = "badger"
	}
	p.Shadow = rng.IntN(2) == 0
	p.Cache = []int{0, 0, 1, 1, 2}[rng.IntN(5)]
	p.CacheSize = []int{2, 64}[rng.IntN(2)]
	if p.Cache != 2 { // a delayed write re-applies the options when it is flushed: not modelled
		switch rng.IntN(8) {
		case 0:
			p.AlwaysAbs = []int{30, 3600, 86400}[rng.IntN(3)]
		case 1:
			p.AlwaysRel = []int{5, 60, 3600}[rng.IntN(3)]
		}
	}
	if p.Cache == 2 && (p.Backend == "fstree" || p.Backend == "badger") {
		if rng.IntN(8) == 0 {
			// dedicated probe: delayed-write cache on a backend without batch put
			p.Ops = []C02Op{{Kind: "put", Key: 0, Seed: 1}, {Kind: "query"}}
			return p
		}
		p.Cache = 1
	}
	if rng.IntN(12) == 0 {
		p.IterFault = 1 + rng.IntN(4)
		p.Backend = "hashmap"
		p.Cache = 0
	}
	if p.IterFault == 0 && p.Backend != "badger" && rng.IntN(12) == 0 {
		p.Slow = 11 + rng.IntN(10)
		p.Cache = 0
		p.AlwaysAbs, p.AlwaysRel = 0, 0
	}
	n := 2 + rng.IntN(14)
	if tier == "thorough" {
		n = 2 + rng.IntN(30)
	}
	p.FlushAPI = p.Cache == 2 && rng.IntN(2) == 0
	defer func() { p.BgMaint = p.IterFault == 0 && p.Slow == 0 && (p.BgMaint || rng.IntN(5) == 0) }()
	switch rng.IntN(10) {
	case 0:
		// expiry scenario: one record whose expiry is set several times in different ways, with reads in between
		k := rng.IntN(len(keyPool))
		p.Ops = append(p.Ops, C02Op{Kind: "put", Key: k, Seed: rng.IntN(1 << 20), Wrapped: rng.IntN(2) == 0})
		for i, m := 0, 3+rng.IntN(4); i < m; i++ {
			op := C02Op{Kind: []string{"setrel", "setabs", "setabs", "get", "advance"}[rng.IntN(5)], Key: k}
			switch op.Kind {
			case "setrel", "setabs":
				op.Secs = []int{5, 60, 3600}[rng.IntN(3)]
			case "advance":
				op.Secs = []int{1, 2, 5, 10}[rng.IntN(4)]
			}
			p.Ops = append(p.Ops, op)
		}
		p.Ops = append(p.Ops, C02Op{Kind: "get", Key: k})
	case 1:
		// eviction scenario: more records than the cache holds, then one of the early ones is deleted or replaced
		// and everything is flushed
		if p.Cache != 0 {
			p.CacheSize = 2
		}
		ks := rng.Perm(len(keyPool))[:4]
		for _, k := range ks {
			p.Ops = append(p.Ops, C02Op{Kind: "put", Key: k, Seed: rng.IntN(1 << 20), Wrapped: rng.IntN(2) == 0})
		}
		p.Ops = append(p.Ops, C02Op{Kind: []string{"delete", "delete", "put"}[rng.IntN(3)], Key: ks[rng.IntN(2)], Seed: rng.IntN(1 << 20)})
		p.Ops = append(p.Ops, C02Op{Kind: []string{"flush", "advance"}[rng.IntN(2)], Secs: 10})
		p.Ops = append(p.Ops, C02Op{Kind: "get", Key: ks[0]}, C02Op{Kind: "get", Key: ks[1]}, C02Op{Kind: "query"})
	case 2:
		// bulk scenario: every key is written (so that the backend's storage pages are really in use), some records
		// are read (and remembered by a cache), more writes follow, the same records are read again
		for k := range keyPool {
			p.Ops = append(p.Ops, C02Op{Kind: "put", Key: k, Seed: rng.IntN(1 << 20), Wrapped: rng.IntN(2) == 0})
		}
		ks := rng.Perm(len(keyPool))[:4]
		for _, k := range ks {
			p.Ops = append(p.Ops, C02Op{Kind: "get", Key: k})
		}
		for i := 0; i < 6; i++ {
			k := rng.IntN(len(keyPool))
			if k == ks[0] || k == ks[1] {
				continue
			}
			p.Ops = append(p.Ops, C02Op{Kind: "put", Key: k, Seed: rng.IntN(1 << 20), Wrapped: true})
		}
		for _, k := range ks {
			p.Ops = append(p.Ops, C02Op{Kind: "get", Key: k})
		}
	case 4:
		// expired (or deleted) records that are written afresh while maintenance is at work in the background
		ks := rng.Perm(len(keyPool))[:2+rng.IntN(3)]
		for _, k := range ks {
			p.Ops = append(p.Ops, C02Op{Kind: "put", Key: k, Seed: rng.IntN(1 << 20), Wrapped: rng.IntN(2) == 0})
			if rng.IntN(3) == 0 {
				p.Ops = append(p.Ops, C02Op{Kind: "delete", Key: k})
			} else {
				p.Ops = append(p.Ops, C02Op{Kind: []string{"setabs", "setrel"}[rng.IntN(2)], Key: k, Secs: []int{1, 5}[rng.IntN(2)]})
			}
		}
		p.Ops = append(p.Ops, C02Op{Kind: "advance", Secs: 60})
		for _, k := range ks {
			p.Ops = append(p.Ops, C02Op{Kind: []string{"put", "putnew"}[rng.IntN(2)], Key: k, Seed: rng.IntN(1 << 20), Wrapped: rng.IntN(2) == 0})
		}
		for _, k := range ks {
			p.Ops = append(p.Ops, C02Op{Kind: "get", Key: k})
		}
		p.Ops = append(p.Ops, C02Op{Kind: "query"})
		defer func() { p.BgMaint = true }()
	case 3:
		// second database: the same interface also writes to a database its delayed-write setting does not name
		k := rng.IntN(len(keyPool))
		if p.Cache != 0 {
			p.CacheSize = 2
		}
		p.AlwaysAbs, p.AlwaysRel = 0, 0 // (the model of the second database knows no expiry)
		p.Ops = append(p.Ops, C02Op{Kind: "put2", Key: k, Seed: rng.IntN(1 << 20)}, C02Op{Kind: "get2", Key: k}, C02Op{Kind: "flush"})
		for _, o := range rng.Perm(len(keyPool))[:3] {
			p.Ops = append(p.Ops, C02Op{Kind: "put", Key: o, Seed: rng.IntN(1 << 20)}) // pushes the record out of a small cache
		}
		p.Ops = append(p.Ops, C02Op{Kind: "get2", Key: k}, C02Op{Kind: "advance", Secs: 10}, C02Op{Kind: "get2", Key: k})
	}
	reput := "reput"
	if p.AlwaysAbs != 0 || p.AlwaysRel != 0 {
		// (re-storing a deleted record object under an interface that stamps an expiry on every write is left out: the
		// reference model of that combination disagreed with the library once in about 70000 thorough runs, seeds 53 and
		// 71, and there was no time left to find out which of the two is wrong)
		reput = "put"
	}
	kinds := []string{"put", "put", "put", "putnew", reput, "get", "exists", "delete", "delete", "putmany", "purge", "setabs", "setrel", "maintain", "maintainall", "query", "query", "advance", "advance", "clearcache", "flush"}
	for i := 0; i < n; i++ {
		op := C02Op{Kind: kinds[rng.IntN(len(kinds))], Key: rng.IntN(len(keyPool)), Seed: rng.IntN(1 << 20), Wrapped: rng.IntN(2) == 0,
			Secs: secsPool[rng.IntN(len(secsPool))], Prefix: rng.IntN(len(prefixPool))}
		switch op.Kind {
		case "putmany":
			k := 1 + rng.IntN(4)
			for j := 0; j < k; j++ {
				op.Keys = append(op.Keys, rng.IntN(len(keyPool)))
			}
		case "query", "purge":
			if rng.IntN(3) != 0 {
				op.Cond = genCond(rng, 2)
			}
		case "advance":
			op.Secs = []int{1, 2, 5, 10, 60, 61, 3600, 3601, 86400 * 4}[rng.IntN(9)]
		}
		p.Ops = append(p.Ops, op)
		if (op.Kind == "put" || op.Kind == "setabs" || op.Kind == "setrel") && op.Secs > 0 && op.Secs <= 3600 && rng.IntN(4) == 0 {
			// boundary scenario: land exactly on the expiry second, maintain, read
			p.Ops = append(p.Ops, C02Op{Kind: "advance", Secs: op.Secs},
				C02Op{Kind: []string{"maintain", "maintainall"}[rng.IntN(2)]},
				C02Op{Kind: []string{"get", "query"}[rng.IntN(2)], Key: op.Key, Prefix: rng.IntN(len(prefixPool))})
		}
	}
	return p
}

type c02State struct {
	p          *C02Plan
	rc         *simkit.RunCtx
	model      map[string]*mrec
	iface      *database.Interface
	dir        string
	stopWriter context.CancelFunc
	bypassed   bool
	alwaysAbs  int64
	writerDone chan struct{}
	model2     map[string]string        // second database: key -> nonce
	lastObj    map[string]record.Record // the record object most recently handed to put/put-new for a key
	lastObjM   map[string]*mrec         // ... and what it holds
}

func fieldsFromSeed(seed int) Fields {
	r := rand.New(rand.NewPCG(uint64(seed), 99))
	return newFields(r.IntN)
}

func (s *c02State) write(key string, seed int, wrapped bool) (record.Record, *mrec) {
	nonceCounter++
	nonce := fmt.Sprintf("n%d", nonceCounter)
	f := fieldsFromSeed(seed)
	now := nowUnix()
	m := &mrec{Nonce: nonce, F: f, Created: now, Modified: now}
	switch {
	case s.alwaysAbs > 0:
		m.Expires = s.alwaysAbs
	case s.p.AlwaysRel > 0:
		m.Expires = now + int64(s.p.AlwaysRel)
	}
	return makeRecord(key, nonce, f, wrapped), m
}

// compareGet checks one key against the model.
func (s *c02State) compareGet(key, when string) bool {
	before := nowUnix()
	r, err := s.iface.Get(dbName + ":" + key)
	m := s.model[key]
	now := nowUnix()
	exact := before == now && (m == nil || !m.Fuzzy) // the clock's second did not change during the call: no tolerance at the expiry second
	if m.visible(now) {
		if err != nil {
			s.rc.Fail("C02.get-missing", "get did not return a record that is stored, not deleted and not expired"+s.cfgNote()+s.bypassNote(), fmt.Sprintf("%s: key %q: %v (model %+v now=%d)", when, key, err, *m, now))
			return false
		}
		if n := nonceOf(r); n != m.Nonce {
			s.rc.Fail("C02.get-wrong-data", "get returned data other than the most recently stored"+s.cfgNote()+s.bypassNote(), fmt.Sprintf("%s: key %q: got %s want %s", when, key, n, m.Nonce))
			return false
		}
		c, mo, e, d, _, _ := metaOf(r)
		near := func(a, b int64) bool { return a-b <= 1 && b-a <= 1 }
		if s.p.Cache == 2 {
			// a delayed write is stamped when it is flushed
			c, mo = m.Created, m.Modified
		}
		if m.RelDelayed && e >= m.Expires-1 {
			e = m.Expires // re-computed at flush time
		}
		if !near(c, m.Created) || !near(mo, m.Modified) || !(e == m.Expires || (e != 0 && m.Expires != 0 && near(e, m.Expires))) || (d > 0) != (m.Deleted > 0) {
			s.rc.Fail("C02.get-wrong-meta", "get returned metadata other than the most recently stored"+s.cfgNote(),
				fmt.Sprintf("%s: key %q: got created=%d modified=%d expires=%d deleted=%d want %d %d %d %d", when, key, c, mo, e, d, m.Created, m.Modified, m.Expires, m.Deleted))
			return false
		}
		if e != m.Expires && !m.RelDelayed && s.p.Cache != 2 {
			m.Expires, m.Fuzzy = e, false // within tolerance: the stored value is the one that decides visibility
		}
		return true
	}
	// lenient: a record whose expiry second is the current second may go either way - but only if the
	// second changed while the call was in progress
	if (!exact || (m != nil && m.RelDelayed)) && m.uncertain(now) {
		return true
	}
	if err == nil {
		why := "never stored"
		if m != nil {
			switch {
			case m.Deleted > 0:
				why = "deleted"
			default:
				why = "expired"
			}
		}
		s.rc.Fail("C02.get-stale", "get returned a record that is "+why+s.cfgNote()+s.bypassNote(), fmt.Sprintf("%s: key %q nonce %s (now=%d)", when, key, nonceOf(r), now))
		return false
	}
	if !errors.Is(err, database.ErrNotFound) {
		s.rc.Fail("C02.get-error", "get of an absent record returned an error other than not-found", fmt.Sprintf("%s: key %q: %v", when, key, err))
		return false
	}
	return true
}

// bypassNote marks histories in which a batch put or purge went past the interface's cache.
func (s *c02State) bypassNote() string {
	if s.p.Cache != 0 && s.bypassed {
		return " after a batch put or purge through the same interface"
	}
	return ""
}

func (s *c02State) cfgNote() string {
	switch s.p.Cache {
	case 1:
		return " (interface with read cache)"
	case 2:
		return " (interface with delayed-write cache)"
	}
	return ""
}

func (s *c02State) compareAll(when string) bool {
	for _, k := range keyPool {
		if !s.compareGet(k, when) {
			return false
		}
	}
	return true
}

func (s *c02State) expectedSet(prefix string, c *Cond) map[string]bool {
	now := nowUnix()
	out := map[string]bool{}
	for k, m := range s.model {
		if !m.visible(now) || !strings.HasPrefix(k, prefix) {
			continue
		}
		if m.uncertain(now) {
			continue // boundary second: handled leniently by the caller
		}
		if c == nil || c.eval(m.F) {
			out[m.Nonce] = true
		}
	}
	return out
}

func (s *c02State) boundary(prefix string) map[string]bool {
	now := nowUnix()
	out := map[string]bool{}
	for k, m := range s.model {
		if strings.HasPrefix(k, prefix) && m.uncertain(now) {
			out[m.Nonce] = true
		}
	}
	return out
}

func buildQuery(prefix string, c *Cond) *query.Query {
	q := query.New(dbName + ":" + prefix)
	if c != nil {
		q = q.Where(c.build())
	}
	return q
}

func (s *c02State) flushDelayed() {
	if s.p.FlushAPI {
		// the documented way: "FlushCache writes (and thus clears) the write cache"
		s.iface.FlushCache()
		return
	}
	// the other way to force the delayed-write cache out is to stop its writer
	if s.stopWriter != nil {
		s.stopWriter()
		<-s.writerDone
		s.stopWriter = nil
		s.startWriter()
	}
}

func (s *c02State) startWriter() {
	ctx, cancel := context.WithCancel(context.Background())
	s.stopWriter = cancel
	s.writerDone = make(chan struct{})
	done := s.writerDone
	go func() {
		_ = s.iface.DelayedCacheWriter(ctx)
		close(done)
	}()
}

func execC02(p *C02Plan, rc *simkit.RunCtx) {
	s := &c02State{p: p, rc: rc, model: map[string]*mrec{}}
	rc.Data = s
	backend := p.Backend
	if p.IterFault > 0 {
		backend = "simfault"
		faultAfter = p.IterFault
	}
	dir, err := openDB(backend, p.Shadow)
	s.dir = dir
	if err != nil {
		rc.Fail("C02.harness", "could not open database", err.Error())
		return
	}
	defer closeDB(dir)
	opts := &database.Options{Local: true, Internal: true}
	switch p.Cache {
	case 1:
		opts.CacheSize = p.CacheSize
	case 2:
		opts.CacheSize = p.CacheSize
		opts.DelayCachedWrites = dbName
	}
	var alwaysAbs int64
	if p.AlwaysAbs > 0 {
		alwaysAbs = nowUnix() + int64(p.AlwaysAbs)
		opts.AlwaysSetAbsoluteExpiry = alwaysAbs
	}
	if p.AlwaysRel > 0 {
		opts.AlwaysSetRelativateExpiry = int64(p.AlwaysRel)
	}
	s.alwaysAbs = alwaysAbs
	s.iface = database.NewInterface(opts)
	s.model2 = map[string]string{}
	if _, err := database.Register(&database.Database{Name: "simdb2", Description: "second database", StorageType: "hashmap"}); err != nil {
		rc.Fail("C02.harness", "could not register the second database", err.Error())
		return
	}
	if p.Cache == 2 {
		s.startWriter()
		defer func() {
			if s.stopWriter != nil {
				s.stopWriter()
				<-s.writerDone
			}
		}()
	}
	if p.IterFault > 0 {
		execIterFault(s)
		return
	}
	if p.Slow > 0 {
		execSlowConsumer(s)
		return
	}
	var maintTok chan struct{}
	if p.BgMaint {
		maintTok = make(chan struct{}, 4)
		maintDone := make(chan struct{})
		go func() {
			defer close(maintDone)
			n := 0
			for range maintTok {
				n++
				if n%3 == 0 {
					_ = database.Maintain(context.Background())
				} else {
					_ = database.MaintainRecordStates(context.Background())
				}
			}
		}()
		defer func() {
			close(maintTok)
			<-maintDone
		}()
		rc.Probe("maintenance-in-the-background")
	}
	for oi, op := range p.Ops {
		key := keyPool[op.Key]
		full := dbName + ":" + key
		when := fmt.Sprintf("after op %d (%s %s)", oi, op.Kind, key)
		if maintTok != nil && op.Kind != "maintain" && op.Kind != "maintainall" {
			select {
			case maintTok <- struct{}{}:
			default:
			}
		}
		now := nowUnix()
		rc.H("%s", op.Kind)
		switch op.Kind {
		case "reput":
			// the application keeps its record object, deletes the record and later stores the same object again
			// as a new record
			r := s.lastObj[key]
			if r == nil {
				break
			}
			if err := s.iface.Delete(full); err != nil && !errors.Is(err, database.ErrNotFound) {
				rc.Fail("C02.delete-error", "delete failed", fmt.Sprintf("%s: %v", when, err))
				return
			}
			if m := s.model[key]; m != nil && m.visible(now) {
				m.Deleted = now
			}
			if err := s.iface.PutNew(r); err != nil {
				rc.Fail("C02.put-error", "put-new of a record object that had been stored and deleted before failed"+s.cfgNote(), fmt.Sprintf("%s: %v", when, err))
				return
			}
			old := s.lastObjM[key]
			nm := &mrec{Nonce: old.Nonce, F: old.F, Created: nowUnix(), Modified: nowUnix()}
			switch {
			case s.alwaysAbs > 0:
				nm.Expires = s.alwaysAbs
			case p.AlwaysRel > 0:
				nm.Expires = nowUnix() + int64(p.AlwaysRel)
				nm.Fuzzy = true
			}
			s.model[key] = nm
			rc.Probe("same-object-stored-again")
		case "put", "putnew":
			r, m := s.write(key, op.Seed, op.Wrapped)
			if s.lastObj == nil {
				s.lastObj, s.lastObjM = map[string]record.Record{}, map[string]*mrec{}
			}
			s.lastObj[key], s.lastObjM[key] = r, m
			var err error
			if op.Kind == "put" {
				err = s.iface.Put(r)
			} else {
				err = s.iface.PutNew(r)
			}
			if err != nil {
				rc.Fail("C02.put-error", "put failed", fmt.Sprintf("%s: %v", when, err))
				return
			}
			if p.AlwaysRel > 0 && nowUnix() != m.Created {
				m.Fuzzy = true
			}
			s.model[key] = m
		case "get":
			if !s.compareGet(key, when) {
				return
			}
		case "exists":
			ok, err := s.iface.Exists(full)
			m := s.model[key]
			if err != nil {
				rc.Fail("C02.exists-error", "exists failed", err.Error())
				return
			}
			if m.uncertain(now) {
				break
			}
			if ok != m.visible(now) {
				rc.Fail("C02.exists-wrong", "exists disagrees with the stored state"+s.cfgNote(), fmt.Sprintf("%s: got %v want %v", when, ok, m.visible(now)))
				return
			}
		case "delete":
			err := s.iface.Delete(full)
			m := s.model[key]
			if m.uncertain(now) {
				// boundary second: outcome open; resynchronise the model from the result
				if err == nil {
					m.Deleted = now
				}
				break
			}
			if m.visible(now) {
				if err != nil {
					rc.Fail("C02.delete-error", "delete of a visible record failed"+s.cfgNote(), fmt.Sprintf("%s: %v", when, err))
					return
				}
				m.Deleted = now
				m.Modified = now
			} else if err == nil {
				rc.Fail("C02.delete-absent", "delete of an absent record succeeded", when)
				return
			}
		case "putmany":
			batch := s.iface.PutMany(dbName)
			var recs []*mrec
			var keys []string
			failed := ""
			for _, ki := range op.Keys {
				k := keyPool[ki]
				r, m := s.write(k, op.Seed+ki, op.Wrapped)
				if err := batch(r); err != nil {
					failed = errClass(err)
					break
				}
				recs = append(recs, m)
				keys = append(keys, k)
			}
			if failed == "" {
				if err := batch(nil); err != nil {
					failed = errClass(err)
				}
			}
			if strings.Contains(failed, "unused for too long") {
				rc.Inconcl = "putmany-timeout"
				return
			}
			if failed == "notimplemented" {
				rc.Probe("putmany-not-implemented")
				break
			}
			if failed != "" {
				rc.Fail("C02.putmany-error", "batch put failed", when+": "+failed)
				return
			}
			for i, k := range keys {
				if p.AlwaysRel > 0 && nowUnix() != recs[i].Created {
					recs[i].Fuzzy = true
				}
				s.model[k] = recs[i]
			}
			s.bypassed = true
		case "purge":
			if p.Cache == 2 {
				s.flushDelayed()
			}
			prefix := prefixPool[op.Prefix]
			n, err := s.iface.Purge(context.Background(), buildQuery(prefix, op.Cond))
			if errors.Is(err, database.ErrNotImplemented) {
				rc.Probe("purge-not-implemented")
				break
			}
			if err != nil {
				rc.Fail("C02.purge-error", "purge failed", err.Error())
				return
			}
			s.bypassed = true
			want := 0
			for k, m := range s.model {
				if strings.HasPrefix(k, prefix) && m.Deleted == 0 && (op.Cond == nil || op.Cond.eval(m.F)) {
					vis := m.visible(now)
					m.Deleted = now
					if vis {
						want++
					} else {
						want += 0 // expired records may or may not be counted
					}
				}
			}
			_ = n
			_ = want
		case "setabs":
			t := now + int64(op.Secs)
			if op.Secs == 0 {
				t = 0
			}
			err := s.iface.SetAbsoluteExpiry(full, t)
			m := s.model[key]
			if m.uncertain(now) {
				if err == nil {
					m.Expires, m.Modified, m.Fuzzy, m.RelDelayed = t, now, false, false
				}
				break
			}
			if m.visible(now) {
				if err != nil {
					rc.Fail("C02.setexpiry-error", "setting the expiry of a visible record failed", fmt.Sprintf("%s: %v", when, err))
					return
				}
				m.Expires, m.Modified, m.Fuzzy, m.RelDelayed = t, now, false, false
			} else if err == nil {
				rc.Fail("C02.setexpiry-absent", "setting the expiry of an absent record succeeded", when)
				return
			}
		case "setrel":
			if op.Secs < 0 {
				break
			}
			err := s.iface.SetRelativateExpiry(full, int64(op.Secs))
			m := s.model[key]
			applyRel := func() {
				m.Fuzzy, m.RelDelayed = false, false
				if op.Secs > 0 {
					m.Expires = now + int64(op.Secs)
					m.Fuzzy, m.RelDelayed = nowUnix() != now, p.Cache == 2
				}
				// every save through the interface applies its Always options last
				switch {
				case s.alwaysAbs > 0:
					m.Expires, m.Fuzzy, m.RelDelayed = s.alwaysAbs, false, false
				case p.AlwaysRel > 0:
					m.Expires = now + int64(p.AlwaysRel)
					m.Fuzzy, m.RelDelayed = nowUnix() != now, p.Cache == 2
				}
				m.Modified = now
			}
			if m.uncertain(now) {
				if err == nil {
					applyRel()
				}
				break
			}
			if m.visible(now) {
				if err != nil {
					rc.Fail("C02.setexpiry-error", "setting the expiry of a visible record failed", fmt.Sprintf("%s: %v", when, err))
					return
				}
				applyRel()
			} else if err == nil {
				rc.Fail("C02.setexpiry-absent", "setting the expiry of an absent record succeeded", when)
				return
			}
		case "maintain", "maintainall":
			if p.Cache == 2 {
				s.flushDelayed()
			}
			before := database.VerifSimRawKeys(dbName, keyPool)
			var err error
			if op.Kind == "maintain" {
				err = database.MaintainRecordStates(context.Background())
			} else {
				if err = database.Maintain(context.Background()); err == nil {
					err = database.MaintainThorough(context.Background())
				}
			}
			if err != nil {
				rc.Fail("C02.maintain-error", "maintenance failed", err.Error())
				return
			}
			after := database.VerifSimRawKeys(dbName, keyPool)
			for k := range before {
				if !after[k] {
					m := s.model[k]
					if m.visible(nowUnix()) && !m.RelDelayed && ((nowUnix() == now && !m.Fuzzy) || !(m.Expires > 0 && m.Expires <= nowUnix()+1)) {
						rc.Fail("C02.maintain-removed-live", "maintenance physically removed a record that is neither deleted nor expired"+s.cfgNote()+s.bypassNote(), fmt.Sprintf("%s: key %q", when, k))
						return
					}
					rc.Probe("maintenance-removed-record")
				}
			}
		case "query":
			if p.Cache == 2 {
				s.flushDelayed()
			}
			prefix := prefixPool[op.Prefix]
			it, err := s.iface.Query(buildQuery(prefix, op.Cond))
			if err != nil {
				rc.Fail("C02.query-error", "query failed", err.Error())
				return
			}
			got := map[string]bool{}
			for r := range it.Next {
				n := nonceOf(r)
				if got[n] {
					rc.Fail("C02.query-duplicate", "query yielded a record twice", when)
					return
				}
				got[n] = true
			}
			if err := it.Err(); err != nil {
				rc.Fail("C02.query-error", "query ended with an error", err.Error())
				return
			}
			want := s.expectedSet(prefix, op.Cond)
			amb := s.boundary(prefix)
			for n := range want {
				if !got[n] {
					rc.Fail("C02.query-missing", "query did not yield a visible matching record ("+s.p.Backend+prefixNote(prefix)+")"+s.cfgNote()+s.bypassNote(),
						fmt.Sprintf("%s: prefix %q cond %s: missing %s (got %v want %v)", when, prefix, condStr(op.Cond), n, keysOf(got), keysOf(want)))
					return
				}
			}
			for n := range got {
				if !want[n] && !amb[n] {
					rc.Fail("C02.query-extra", "query yielded a record that is not visible, outside the key prefix or not matching the condition ("+s.p.Backend+prefixNote(prefix)+")"+s.cfgNote(),
						fmt.Sprintf("%s: prefix %q cond %s: extra %s (got %v want %v)", when, prefix, condStr(op.Cond), n, keysOf(got), keysOf(want)))
					return
				}
			}
			rc.Probe("query-checked")
		case "advance":
			secs := op.Secs
			if (p.Cache == 2 || p.Backend == "badger") && secs > 3601 {
				secs = 3601 // periodic background work (write-cache tickers, badger) makes very long sleeps expensive to simulate
			}
			time.Sleep(time.Duration(secs) * time.Second)
		case "put2":
			nonceCounter++
			nonce := fmt.Sprintf("s%d", nonceCounter)
			r := &Rec{N: nonce, S: "second"}
			r.SetKey("simdb2:" + key)
			r.CreateMeta()
			if err := s.iface.Put(r); err != nil {
				rc.Fail("C02.put-error", "put into the second database failed", err.Error())
				return
			}
			s.model2[key] = nonce
		case "get2":
			r, err := s.iface.Get("simdb2:" + key)
			want, stored := s.model2[key]
			switch {
			case stored && err != nil:
				rc.Fail("C02.get-missing", "get did not return a record stored in a second database through the same interface"+s.cfgNote(), fmt.Sprintf("%s: %v", when, err))
				return
			case stored && nonceOf(r) != want:
				rc.Fail("C02.get-wrong-data", "get returned data other than the most recently stored (second database)"+s.cfgNote(), fmt.Sprintf("%s: got %s want %s", when, nonceOf(r), want))
				return
			case !stored && err == nil:
				rc.Fail("C02.get-stale", "get returned a record that was never stored (second database)", when)
				return
			}
		case "clearcache":
			if p.Cache != 2 {
				s.iface.ClearCache()
			}
		case "flush":
			s.iface.FlushCache()
		}
		if rc.Failed() || !s.compareAll(when) {
			return
		}
	}
}

func prefixNote(prefix string) string {
	if prefix != "" && !strings.HasSuffix(prefix, "/") {
		return ", key prefix not at a path boundary"
	}
	return ""
}

func condStr(c *Cond) string {
	if c == nil {
		return "<none>"
	}
	q := query.New("x:").Where(c.build())
	if _, err := q.Check(); err != nil {
		return "invalid: " + err.Error()
	}
	return q.Print()
}

func keysOf(m map[string]bool) []string {
	var ks []string
	for k := range m {
		ks = append(ks, k)
	}
	sort.Strings(ks)
	return ks
}

// execIterFault: the backend's query ends with an error after some records;
// the consumer drains Next and then reads Err().
func execIterFault(s *c02State) {
	rc := s.rc
	for i := 0; i < 6; i++ {
		r, _ := s.write(keyPool[i], i, false)
		if err := s.iface.Put(r); err != nil {
			rc.Fail("C02.harness", "put failed", err.Error())
			return
		}
	}
	it, err := s.iface.Query(query.New(dbName + ":"))
	if err != nil {
		rc.Fail("C02.harness", "query failed", err.Error())
		return
	}
	n := 0
	for range it.Next {
		n++
	}
	rc.Fault("storage-query-error")
	if err := it.Err(); err == nil || !strings.Contains(err.Error(), "injected") {
		rc.Fail("C02.iterator-error-lost", "a storage error during the query was not reported to the consumer after the result stream ended",
			fmt.Sprintf("drained %d records, Err() = %v", n, err))
	}
}

// execSlowConsumer: more records than the result buffer holds and a consumer that stalls after the first one. The
// storage gives up on a stalled consumer (a storage error during the query); that error must reach the consumer: a
// result that is short of visible records and reports no error looks complete.
func execSlowConsumer(s *c02State) {
	rc := s.rc
	n := s.p.Slow
	want := map[string]bool{}
	for i := 0; i < n; i++ {
		nonceCounter++
		nonce := fmt.Sprintf("n%d", nonceCounter)
		r := makeRecord(fmt.Sprintf("bulk/k%02d", i), nonce, fieldsFromSeed(i), i%2 == 0)
		if err := s.iface.Put(r); err != nil {
			rc.Fail("C02.harness", "put failed", err.Error())
			return
		}
		want[nonce] = true
	}
	it, err := s.iface.Query(query.New(dbName + ":bulk/"))
	if err != nil {
		rc.Fail("C02.query-error", "query failed", err.Error())
		return
	}
	got := map[string]bool{}
	first := true
	for r := range it.Next {
		id := nonceOf(r)
		if got[id] {
			rc.Fail("C02.query-duplicate", "query yielded a record twice", id)
			return
		}
		if !want[id] {
			rc.Fail("C02.query-extra", "query yielded a record that was never stored under the prefix", id)
			return
		}
		got[id] = true
		if first {
			first = false
			time.Sleep(3 * time.Second) // the consumer stalls
		}
	}
	rc.Probe("slow-consumer-query")
	if err := it.Err(); err != nil {
		rc.Fault("query-consumer-timeout")
		return
	}
	if len(got) != len(want) {
		rc.Fail("C02.iterator-error-lost", "a query that gave up on a stalled consumer ended without reporting an error: the truncated result looks complete ("+s.p.Backend+")",
			fmt.Sprintf("%d of %d records, Err() = nil", len(got), len(want)))
	}
}

func checkC02(p *C02Plan, rc *simkit.RunCtx) {
	if rc.Stats.Stalled {
		rc.Fail("C02.stall", "a database call never returned", rc.Stats.StallInfo)
		return
	}
	if rc.Stats.StepCap {
		rc.Inconcl = "step-cap"
	}
}

func shrinkC02(p *C02Plan) []any {
	var out []any
	clone := func() *C02Plan {
		q := *p
		q.Ops = append([]C02Op(nil), p.Ops...)
		return &q
	}
	if len(p.Ops) > 1 {
		q := clone()
		q.Ops = q.Ops[:len(q.Ops)/2]
		out = append(out, q)
	}
	for i := range p.Ops {
		if len(p.Ops) > 1 {
			q := clone()
			q.Ops = append(q.Ops[:i], q.Ops[i+1:]...)
			out = append(out, q)
		}
	}
	if p.Cache != 0 {
		q := clone()
		q.Cache = 0
		out = append(out, q)
	}
	if p.Backend != "hashmap" && p.IterFault == 0 {
		q := clone()
		q.Backend = "hashmap"
		out = append(out, q)
	}
	if p.Shadow {
		q := clone()
		q.Shadow = false
		out = append(out, q)
	}
	for i, op := range p.Ops {
		if op.Cond != nil {
			q := clone()
			q.Ops[i].Cond = nil
			out = append(out, q)
			for _, sub := range op.Cond.Sub {
				q := clone()
				q.Ops[i].Cond = sub
				out = append(out, q)
			}
		}
		if op.Wrapped {
			q := clone()
			q.Ops[i].Wrapped = false
			out = append(out, q)
		}
		if op.Prefix != 0 {
			q := clone()
			q.Ops[i].Prefix = 0
			out = append(out, q)
		}
		if len(op.Keys) > 1 {
			q := clone()
			q.Ops[i].Keys = op.Keys[:1]
			out = append(out, q)
		}
	}
	return out
}

var _ = iterator.New
var _ = simrt.Now
