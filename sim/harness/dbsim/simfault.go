package dbsim

import (
	"errors"

	"github.com/safing/portbase/database/iterator"
	"github.com/safing/portbase/database/query"
	"github.com/safing/portbase/database/record"
	"github.com/safing/portbase/database/storage"
	"github.com/safing/portbase/database/storage/hashmap"
)

// faultAfter: the simfault storage ends every query with an error after
// faultAfter-1 records (0 = no fault).
var faultAfter int

// faultGetIn: when > 0, the faultGetIn-th Get call from now on fails with an injected storage error
// (armed by the harness around one operation, then cleared).
var faultGetIn int

// faultGetFired counts the injected Get failures.
var faultGetFired int

var errInjected = errors.New("injected storage error")

// Get forwards to the inner storage unless a failure is armed.
func (f *faultStorage) Get(key string) (record.Record, error) {
	if faultGetIn > 0 {
		faultGetIn--
		if faultGetIn == 0 {
			faultGetFired++
			return nil, errInjected
		}
	}
	return f.Interface.Get(key)
}

type faultStorage struct {
	storage.Interface
}

func init() {
	_ = storage.Register("simfault", func(name, location string) (storage.Interface, error) {
		inner, err := hashmap.NewHashMap(name, location)
		if err != nil {
			return nil, err
		}
		return &faultStorage{inner}, nil
	})
}

// Query forwards the inner query's records and then reports an injected error.
func (f *faultStorage) Query(q *query.Query, local, internal bool) (*iterator.Iterator, error) {
	inner, err := f.Interface.Query(q, local, internal)
	if err != nil || faultAfter == 0 {
		return inner, err
	}
	out := iterator.New()
	n := faultAfter
	go func() {
		sent := 0
		for r := range inner.Next {
			if sent >= n-1 {
				inner.Cancel()
				break
			}
			out.Next <- r
			sent++
		}
		out.Finish(errors.New("injected storage error"))
	}()
	return out, nil
}
