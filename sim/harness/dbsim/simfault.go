package dbsim

import (
	"errors"

	"github.com/safing/portbase/database/iterator"
	"github.com/safing/portbase/database/query"
	"github.com/safing/portbase/database/storage"
	"github.com/safing/portbase/database/storage/hashmap"
)

// faultAfter: the simfault storage ends every query with an error after
// faultAfter-1 records (0 = no fault).
var faultAfter int

type faultStorage struct {
	storage.Interface
}

func init() {
	_ = storage.Register("simfault", func(name, location string) (storage.Interface, error) {
		inner, err := hashmap.NewHashMap(name, location)
		if err != nil {
			return nil, err
		}
		return &faultStorage{inner}, nil
	})
}

// Query forwards the inner query's records and then reports an injected error.
func (f *faultStorage) Query(q *query.Query, local, internal bool) (*iterator.Iterator, error) {
	inner, err := f.Interface.Query(q, local, internal)
	if err != nil || faultAfter == 0 {
		return inner, err
	}
	out := iterator.New()
	n := faultAfter
	go func() {
		sent := 0
		for r := range inner.Next {
			if sent >= n-1 {
				inner.Cancel()
				break
			}
			out.Next <- r
			sent++
		}
		out.Finish(errors.New("injected storage error"))
	}()
	return out, nil
}
