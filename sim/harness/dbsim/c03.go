package dbsim

import (
	"context"
	"fmt"
	"math/rand/v2"
	"strings"
	"time"

	"github.com/safing/portbase/api"
	"github.com/safing/portbase/database"
	"github.com/safing/portbase/database/query"
	"github.com/safing/portbase/database/record"
	"github.com/safing/portbase/runtime"
	"github.com/safing/portbase/verifsim/simkit"
	"github.com/safing/portbase/verifsim/simrt"
)

// C03Plan: a privileged writer and an unprivileged client.
type C03Plan struct {
	Backend  string  `json:"backend"`
	Shadow   bool    `json:"shadow,omitempty"`
	Local    bool    `json:"local"`
	Internal bool    `json:"internal"`
	Cache    int     `json:"cache,omitempty"` // client-side read cache size (0 none)
	Delay    bool    `json:"delay,omitempty"` // with a cache: the client interface delays its writes (DelayCachedWrites)
	Ops      []C03Op `json:"ops"`
	// FlagHook (1 secret, 2 crown jewel, 3 both): a registered pre-put hook replaces every record the privileged
	// interface stores by a copy that carries these flags (a component that protects a key range by hook)
	FlagHook int `json:"flag_hook,omitempty"`
}

// C03Op is one step.
type C03Op struct {
	Who      string `json:"who"` // priv | client
	Kind     string `json:"k"`
	Key      int    `json:"key"`
	Flags    int    `json:"flags,omitempty"`
	Seed     int    `json:"seed,omitempty"`
	Prefix   int    `json:"prefix,omitempty"`
	Wrapped  bool   `json:"wrapped,omitempty"`
	GetFault int    `json:"get_fault,omitempty"` // backend simfault: the n-th storage read during this client operation fails
}

var c03ClientKinds = []string{"get", "exists", "query", "feed", "insert", "setabs", "setrel", "makesecret", "makecrown", "delete", "purge", "putmany", "put", "putnew", "rtget", "rtquery", "rtfeed", "rtput", "apiget", "apiquery", "apisub", "apiupdate", "apiinsert", "apidelete"}

func genC03(rng *rand.Rand, tier string) *C03Plan {
	p := &C03Plan{Backend: []string{"hashmap", "hashmap", "fstree", "bbolt", "bbolt"}[rng.IntN(5)], Shadow: rng.IntN(2) == 0}
	switch rng.IntN(3) {
	case 0:
		p.Local, p.Internal = false, false
	case 1:
		p.Local, p.Internal = true, false
	default:
		p.Local, p.Internal = false, true
	}
	if rng.IntN(3) == 0 {
		p.Cache = []int{2, 64}[rng.IntN(2)]
		p.Delay = rng.IntN(3) == 0
	}
	if p.Cache == 0 && rng.IntN(5) == 0 {
		p.FlagHook = 1 + rng.IntN(3)
	}
	faulty := rng.IntN(6) == 0
	if faulty {
		p.Backend = "simfault" // hashmap behind a storage whose reads can be made to fail
	}
	n := 3 + rng.IntN(14)
	for i := 0; i < n; i++ {
		op := C03Op{Key: rng.IntN(5), Seed: rng.IntN(1 << 20), Prefix: rng.IntN(len(prefixPool)), Wrapped: rng.IntN(2) == 0}
		if rng.IntN(3) == 0 || i == 0 {
			op.Who = "priv"
			op.Kind = []string{"put", "put", "put", "makesecret", "makecrown", "delete", "rtset", "rtset", "putnewflagged"}[rng.IntN(9)]
			op.Flags = rng.IntN(4)
		} else {
			op.Who = "client"
			op.Kind = c03ClientKinds[rng.IntN(len(c03ClientKinds))]
			if faulty && rng.IntN(2) == 0 {
				op.GetFault = 1 + rng.IntN(2)
			}
		}
		p.Ops = append(p.Ops, op)
	}
	return p
}

type c03State struct {
	p      *C03Plan
	rc     *simkit.RunCtx
	model  map[string]*mrec
	priv   *database.Interface
	client *database.Interface
	sub    *database.Subscription
	rtSub  *database.Subscription
	rtVals map[string]*mrec // runtime values by key
	rtPush runtime.PushFunc
	rtSets []string // keys the runtime provider was asked to set
	apiOut []string
	dbapi  *api.DatabaseAPI
	apiN   int
}

func (s *c03State) protected(key string) bool {
	m := s.model[key]
	if !m.visible(nowUnix()) {
		return false
	}
	return (m.Secret && !s.p.Internal) || (m.Crown && !s.p.Local)
}

func (s *c03State) protectedNonces() map[string]string {
	out := map[string]string{}
	for k := range s.model {
		if s.protected(k) {
			out[s.model[k].Nonce] = k
		}
	}
	return out
}

// privView compares the privileged view of every key with the model.
func (s *c03State) privView(when string) bool {
	for _, k := range keyPool[:5] {
		r, err := s.priv.Get(dbName + ":" + k)
		m := s.model[k]
		if m.visible(nowUnix()) {
			if err != nil {
				s.rc.Fail("C03.protected-record-changed", "a protected record was removed through a non-privileged interface", fmt.Sprintf("%s: key %s: %v", when, k, err))
				return false
			}
			_, _, e, _, sec, crown := metaOf(r)
			if nonceOf(r) != m.Nonce || sec != m.Secret || crown != m.Crown || (e == 0) != (m.Expires == 0) {
				what := "modified"
				if sec != m.Secret || crown != m.Crown {
					what = "re-flagged"
				}
				s.rc.Fail("C03.protected-record-changed", "a record was "+what+" through a non-privileged interface that may not see it",
					fmt.Sprintf("%s: key %s: nonce %s/%s secret %v/%v crown %v/%v expires %d/%d", when, k, nonceOf(r), m.Nonce, sec, m.Secret, crown, m.Crown, e, m.Expires))
				return false
			}
		} else if err == nil {
			// the model lost track (should not happen): resynchronise is not possible
			s.rc.Fail("C03.harness", "model and privileged view disagree", fmt.Sprintf("%s: key %s present but model says absent", when, k))
			return false
		}
	}
	return true
}

func (s *c03State) leak(path string, r record.Record, when string) bool {
	n := nonceOf(r)
	if k, bad := s.protectedNonces()[n]; bad {
		m := s.model[k]
		kind := "secret"
		if m.Crown && !s.p.Local {
			kind = "crown-jewel"
		}
		s.rc.Fail("C03.leak", fmt.Sprintf("a %s record crossed a non-privileged interface via %s (%s)", kind, path, s.p.Backend),
			fmt.Sprintf("%s: key %s nonce %s; client local=%v internal=%v cache=%d", when, k, n, s.p.Local, s.p.Internal, s.p.Cache))
		return true
	}
	return false
}

// flagHook: a pre-put hook that replaces what the privileged interface stores by a flagged copy.
type flagHook struct {
	database.HookBase
	flags int
}

func (h *flagHook) UsesPrePut() bool { return true }

func (h *flagHook) PrePut(r record.Record) (record.Record, error) {
	if !strings.HasPrefix(idOfLocked(r), "n") {
		return r, nil // written by the client
	}
	raw, err := r.MarshalRecord(r)
	if err != nil {
		return r, nil
	}
	cp, err := record.NewRawWrapper(dbName, r.DatabaseKey(), raw)
	if err != nil {
		return r, nil
	}
	if h.flags&1 != 0 {
		cp.Meta().MakeSecret()
	}
	if h.flags&2 != 0 {
		cp.Meta().MakeCrownJewel()
	}
	return cp, nil
}

// rtProvider serves the runtime values and accepts new ones.
type rtProvider struct {
	s    *c03State
	mkRT func(key string, m *mrec) record.Record
}

func (pr *rtProvider) Get(keyOrPrefix string) ([]record.Record, error) {
	var out []record.Record
	for _, k := range sortedKeys(pr.s.rtVals) {
		if strings.HasPrefix("vals/"+k, keyOrPrefix) || strings.HasPrefix(keyOrPrefix, "vals/"+k) {
			out = append(out, pr.mkRT("vals/"+k, pr.s.rtVals[k]))
		}
	}
	return out, nil
}

func (pr *rtProvider) Set(r record.Record) (record.Record, error) {
	key := strings.TrimPrefix(r.DatabaseKey(), "vals/")
	pr.s.rtSets = append(pr.s.rtSets, key)
	pr.s.rtVals[key] = &mrec{Nonce: idOfLocked(r)}
	return r, nil
}

func execC03(p *C03Plan, rc *simkit.RunCtx) {
	s := &c03State{p: p, rc: rc, model: map[string]*mrec{}}
	rc.Data = s
	dir, err := openDB(p.Backend, p.Shadow)
	if err != nil {
		rc.Fail("C03.harness", "could not open database", err.Error())
		return
	}
	defer closeDB(dir)
	s.priv = database.NewInterface(&database.Options{Local: true, Internal: true})
	copts := &database.Options{Local: p.Local, Internal: p.Internal, CacheSize: p.Cache}
	if p.Delay && p.Cache > 0 {
		copts.DelayCachedWrites = dbName
	}
	s.client = database.NewInterface(copts)
	if copts.DelayCachedWrites != "" {
		wctx, stopWriter := context.WithCancel(context.Background())
		writerDone := make(chan struct{})
		go func() {
			_ = s.client.DelayedCacheWriter(wctx)
			close(writerDone)
		}()
		defer func() {
			stopWriter()
			<-writerDone
		}()
		rc.Probe("client-delays-writes")
	}
	_, _ = s.priv.Get(dbName + ":warmup")
	if p.FlagHook != 0 {
		hk, herr := database.RegisterHook(query.New(dbName+":"), &flagHook{flags: p.FlagHook})
		if herr != nil {
			rc.Fail("C03.harness", "RegisterHook failed", herr.Error())
			return
		}
		defer func() { _ = hk.Cancel() }()
		rc.Probe("records-flagged-by-hook")
	}
	s.sub, err = s.client.Subscribe(query.New(dbName + ":"))
	if err != nil {
		rc.Fail("C03.harness", "subscribe failed", err.Error())
		return
	}
	defer func() { _ = s.sub.Cancel() }()
	// an injected runtime database whose provider serves flagged and unflagged values
	s.rtVals = map[string]*mrec{}
	if _, err := database.Register(&database.Database{Name: "runtime", Description: "sim runtime", StorageType: database.StorageTypeInjected}); err != nil {
		rc.Fail("C03.harness", "register runtime db", err.Error())
		return
	}
	reg := runtime.NewRegistry()
	if err := reg.InjectAsDatabase("runtime"); err != nil {
		rc.Fail("C03.harness", "inject runtime db", err.Error())
		return
	}
	mkRT := func(key string, m *mrec) record.Record {
		r := &Rec{N: m.Nonce, S: m.F.S}
		r.SetKey("runtime:" + key)
		r.CreateMeta()
		if m.Secret {
			r.Meta().MakeSecret()
		}
		if m.Crown {
			r.Meta().MakeCrownJewel()
		}
		return r
	}
	push, err := reg.Register("vals/", &rtProvider{s: s, mkRT: mkRT})
	if err != nil {
		rc.Fail("C03.harness", "register runtime provider", err.Error())
		return
	}
	s.rtPush = push
	s.rtSub, err = s.client.Subscribe(query.New("runtime:vals/"))
	if err != nil {
		rc.Fail("C03.harness", "subscribe runtime", err.Error())
		return
	}
	defer func() { _ = s.rtSub.Cancel() }()
	a := api.CreateDatabaseAPI(func(data []byte) { s.apiOut = append(s.apiOut, string(data)) })
	s.dbapi = &a
	for oi, op := range p.Ops {
		key := keyPool[op.Key]
		full := dbName + ":" + key
		when := fmt.Sprintf("op %d (%s %s %s)", oi, op.Who, op.Kind, key)
		now := nowUnix()
		rc.H("%s %s", op.Who, op.Kind)
		if op.Who == "priv" {
			switch op.Kind {
			case "put":
				nonceCounter++
				nonce := fmt.Sprintf("n%d", nonceCounter)
				f := fieldsFromSeed(op.Seed)
				iface := database.NewInterface(&database.Options{Local: true, Internal: true, AlwaysMakeSecret: op.Flags&1 != 0, AlwaysMakeCrownjewel: op.Flags&2 != 0})
				if err := iface.Put(makeRecord(key, nonce, f, op.Wrapped)); err != nil {
					rc.Fail("C03.harness", "privileged put failed", err.Error())
					return
				}
				fl := op.Flags | p.FlagHook
				s.model[key] = &mrec{Nonce: nonce, F: f, Created: now, Modified: now, Secret: fl&1 != 0, Crown: fl&2 != 0, flaggedAtWrite: (fl&1 != 0 && !p.Internal) || (fl&2 != 0 && !p.Local)}
			case "putnewflagged":
				// a record object that already carries its flags, stored as new
				nonceCounter++
				nonce := fmt.Sprintf("n%d", nonceCounter)
				f := fieldsFromSeed(op.Seed)
				r := makeRecord(key, nonce, f, op.Wrapped)
				if r.Meta() == nil {
					r.CreateMeta()
				}
				if op.Flags&1 != 0 {
					r.Meta().MakeSecret()
				}
				if op.Flags&2 != 0 {
					r.Meta().MakeCrownJewel()
				}
				if err := s.priv.PutNew(r); err != nil {
					rc.Fail("C03.harness", "privileged put-new failed", err.Error())
					return
				}
				fl := op.Flags | p.FlagHook
				s.model[key] = &mrec{Nonce: nonce, F: f, Created: now, Modified: now, Secret: fl&1 != 0, Crown: fl&2 != 0, flaggedAtWrite: (fl&1 != 0 && !p.Internal) || (fl&2 != 0 && !p.Local)}
				rc.Probe("flagged-record-object-stored-as-new")
			case "makesecret":
				if err := s.priv.MakeSecret(full); err == nil {
					s.model[key].Secret = true
				}
			case "makecrown":
				if err := s.priv.MakeCrownJewel(full); err == nil {
					s.model[key].Crown = true
				}
			case "delete":
				if err := s.priv.Delete(full); err == nil {
					s.model[key].Deleted = now
				}
			case "rtset":
				nonceCounter++
				m := &mrec{Nonce: fmt.Sprintf("r%d", nonceCounter), F: fieldsFromSeed(op.Seed), Secret: op.Flags&1 != 0, Crown: op.Flags&2 != 0}
				m.flaggedAtWrite = (m.Secret && !p.Internal) || (m.Crown && !p.Local)
				s.rtVals[key] = m
				s.rtPush(mkRT("vals/"+key, m))
			}
			// Documented caveat of cached interfaces: changes made through another interface are
			// not reflected. Staleness is not what this property is about, so the client's cache is
			// cleared after a foreign change - except where the backend hands out the stored object
			// itself (hashmap) and the change is an in-place re-flagging, which keeps the cache-hit
			// permission check in play.
			if p.Cache > 0 && !(p.Backend == "hashmap" && (op.Kind == "makesecret" || op.Kind == "makecrown")) {
				s.client.ClearCache()
			}
			continue
		}
		prot := s.protected(key)
		if prot {
			rc.Probe("client-op-on-protected-" + op.Kind)
		}
		if copts.DelayCachedWrites != "" && !prot {
			switch op.Kind {
			case "insert", "setabs", "setrel", "makesecret", "makecrown", "delete", "put", "putnew", "putmany", "purge":
				continue // legitimate delayed writes are C02's subject: here only what must be refused
			}
		}
		faultGetIn = 0
		if p.Backend == "simfault" && op.GetFault > 0 {
			faultGetIn = op.GetFault
			fired := faultGetFired
			defer func() {
				if faultGetFired > fired {
					rc.Fault("storage-read-error")
				}
			}()
		}
		switch op.Kind {
		case "get":
			r, err := s.client.Get(full)
			if err == nil && s.leak("get", r, when) {
				return
			}
		case "exists":
			_, _ = s.client.Exists(full)
		case "query":
			it, err := s.client.Query(query.New(dbName + ":" + prefixPool[op.Prefix]))
			if err != nil {
				break
			}
			for r := range it.Next {
				if s.leak("query", r, when) {
					it.Cancel()
					return
				}
			}
		case "feed":
			for more := true; more; {
				select {
				case r := <-s.sub.Feed:
					if r == nil {
						more = false
						break
					}
					// a record may have been flagged after it was delivered: only current protection counts if the
					// delivered object still is the stored one; use the flags of the delivered record itself
					// (a write that was protected from this client from the start carries a nonce of its own: whatever
					// object is delivered with that nonce, flagged or not, is that write)
					n := nonceOf(r)
					if m := s.modelByNonce(n); m != nil && m.flaggedAtWrite {
						rc.Fail("C03.leak", "a protected record was pushed to the feed of a non-privileged subscriber ("+p.Backend+")", when+": "+n)
						return
					}
				default:
					more = false
				}
			}
		case "rtget":
			r, err := s.client.Get("runtime:vals/" + key)
			if err == nil && s.rtLeak("get on the injected runtime database", nonceOf(r), when) {
				return
			}
		case "rtput":
			// a write to a runtime value through the client: refused, and the provider not asked, if the value is protected
			m := s.rtVals[key]
			protected := m != nil && ((m.Secret && !p.Internal) || (m.Crown && !p.Local))
			nonceCounter++
			nr := &Rec{N: fmt.Sprintf("c%d", nonceCounter)}
			nr.SetKey("runtime:vals/" + key)
			nr.CreateMeta()
			before := len(s.rtSets)
			perr := s.client.Put(nr)
			if protected && (perr == nil || len(s.rtSets) > before) {
				rc.Fail("C03.protected-record-changed", "a protected value of an injected runtime database was changed through a non-privileged interface", fmt.Sprintf("%s: vals/%s err=%v", when, key, perr))
				return
			}
			if protected {
				s.rtVals[key] = m // (nothing changed)
				rc.Probe("runtime-write-refused")
			}
		case "rtquery":
			it, err := s.client.Query(query.New("runtime:vals/"))
			if err != nil {
				break
			}
			for r := range it.Next {
				if s.rtLeak("query on the injected runtime database", nonceOf(r), when) {
					it.Cancel()
					return
				}
			}
		case "rtfeed":
			for more := true; more; {
				select {
				case r := <-s.rtSub.Feed:
					if r == nil {
						more = false
						break
					}
					n := nonceOf(r)
					for _, m := range s.rtVals {
						if m.Nonce == n && m.flaggedAtWrite {
							rc.Fail("C03.leak", "a protected record pushed by an injected database reached the feed of a non-privileged subscriber", when+": "+n)
							return
						}
					}
				default:
					more = false
				}
			}
		case "apiget", "apiquery", "apisub", "apiupdate", "apiinsert", "apidelete":
			s.apiN++
			id := fmt.Sprintf("a%d", s.apiN)
			mark := len(s.apiOut)
			// the external API is neither local nor internal, whatever the client interface of this run is
			protAPI := func(k string) bool {
				m := s.model[k]
				return m.visible(nowUnix()) && (m.Secret || m.Crown)
			}
			var msg string
			switch op.Kind {
			case "apiget":
				msg = id + "|get|" + full
			case "apiquery":
				msg = id + "|query|query " + dbName + ":" + prefixPool[op.Prefix]
			case "apisub":
				msg = id + "|sub|query " + dbName + ":"
			case "apiupdate":
				msg = id + "|update|" + full + "|J{\"N\":\"api-" + id + "\"}"
			case "apiinsert":
				msg = id + "|insert|" + full + "|{\"S\":\"api-insert\"}"
			case "apidelete":
				msg = id + "|delete|" + full
			}
			wasProt := protAPI(key)
			s.dbapi.Handle([]byte(msg))
			simrt.AwaitQuiescence(100 * time.Millisecond)
			if p.Cache > 0 {
				s.client.ClearCache() // the API uses its own interface: a foreign change for the client's cache
			}
			if op.Kind == "apisub" {
				// let a privileged re-put of every stored record flow through the subscription
				for _, k := range sortedKeys(s.model) {
					if m := s.model[k]; m.visible(nowUnix()) {
						if r, err := s.priv.Get(dbName + ":" + k); err == nil {
							_ = s.priv.Put(r)
						}
					}
				}
				simrt.AwaitQuiescence(100 * time.Millisecond)
				s.dbapi.Handle([]byte(id + "|cancel"))
				simrt.AwaitQuiescence(100 * time.Millisecond)
			}
			for _, out := range s.apiOut[mark:] {
				for k, m := range s.model {
					if protAPI(k) && strings.Contains(out, "\""+m.Nonce+"\"") {
						rc.Fail("C03.leak", "a protected record was sent by the external database API ("+op.Kind+", "+p.Backend+")", when+": key "+k+" reply "+truncate(out, 120))
						return
					}
				}
			}
			if wasProt && (op.Kind == "apiupdate" || op.Kind == "apiinsert" || op.Kind == "apidelete") {
				okReply := false
				for _, out := range s.apiOut[mark:] {
					if strings.HasPrefix(out, id+"|success") {
						okReply = true
					}
				}
				if okReply {
					rc.Fail("C03.write-allowed", op.Kind+" on a protected record succeeded through the external database API ("+p.Backend+")", when)
					return
				}
			}
			if !wasProt {
				// legitimate changes through the API: track them
				m := s.model[key]
				for _, out := range s.apiOut[mark:] {
					if strings.HasPrefix(out, id+"|success") {
						switch op.Kind {
						case "apiupdate":
							s.model[key] = &mrec{Nonce: "api-" + id, Created: now, Modified: now}
						case "apidelete":
							if m != nil {
								m.Deleted = now
							}
						}
					}
				}
			}
		case "insert", "setabs", "setrel", "makesecret", "makecrown", "delete", "put", "putnew", "putmany", "purge":
			var err error
			switch op.Kind {
			case "insert":
				err = s.client.InsertValue(full, "S", "inserted")
			case "setabs":
				err = s.client.SetAbsoluteExpiry(full, now+3600)
			case "setrel":
				err = s.client.SetRelativateExpiry(full, 3600)
			case "makesecret":
				err = s.client.MakeSecret(full)
			case "makecrown":
				err = s.client.MakeCrownJewel(full)
			case "delete":
				err = s.client.Delete(full)
			case "put", "putnew":
				nonceCounter++
				nonce := fmt.Sprintf("c%d", nonceCounter)
				f := fieldsFromSeed(op.Seed)
				r := makeRecord(key, nonce, f, op.Wrapped)
				if op.Kind == "put" {
					err = s.client.Put(r)
				} else {
					err = s.client.PutNew(r)
				}
				if err == nil && !prot {
					s.model[key] = &mrec{Nonce: nonce, F: f, Created: now, Modified: now}
				}
			case "putmany":
				nonceCounter++
				nonce := fmt.Sprintf("c%d", nonceCounter)
				f := fieldsFromSeed(op.Seed)
				batch := s.client.PutMany(dbName)
				err = batch(makeRecord(key, nonce, f, op.Wrapped))
				if err == nil {
					err = batch(nil)
					if err == nil {
						rc.Fail("C03.putmany-allowed", "a batch write was accepted through a non-privileged interface", when)
						return
					}
				}
			case "purge":
				_, err = s.client.Purge(context.Background(), query.New(dbName+":"+prefixPool[op.Prefix]))
				if p.Cache > 0 {
					s.client.ClearCache() // purge does not invalidate the cache: C02's known finding, not this property
				}
				if err == nil {
					// purge removes what the client may see: update the model for unprotected records
					for k, m := range s.model {
						if strings.HasPrefix(k, prefixPool[op.Prefix]) && m.Deleted == 0 && !s.protected(k) {
							m.Deleted = now
						}
					}
				}
			}
			if prot && err == nil && op.Kind != "purge" && op.Kind != "putmany" {
				rc.Fail("C03.write-allowed", fmt.Sprintf("%s on a protected record succeeded through a non-privileged interface (%s)", op.Kind, p.Backend), when)
				return
			}
			if !prot && err == nil {
				// legitimate change by the client: track it
				m := s.model[key]
				switch op.Kind {
				case "setabs", "setrel":
					if m.visible(now) {
						m.Expires = now + 3600
					}
				case "makesecret":
					if m.visible(now) {
						m.Secret = true
					}
				case "makecrown":
					if m.visible(now) {
						m.Crown = true
					}
				case "delete":
					if m.visible(now) {
						m.Deleted = now
					}
				}
			}
		}
		faultGetIn = 0
		if rc.Failed() || !s.privView("after "+when) {
			return
		}
	}
	time.Sleep(time.Millisecond)
}

func truncate(x string, n int) string {
	if len(x) > n {
		return x[:n]
	}
	return x
}

// rtLeak reports a runtime value that the client may not see.
func (s *c03State) rtLeak(path, nonce, when string) bool {
	for k, m := range s.rtVals {
		if m.Nonce == nonce && ((m.Secret && !s.p.Internal) || (m.Crown && !s.p.Local)) {
			s.rc.Fail("C03.leak", "a protected record crossed a non-privileged interface via "+path, when+": key vals/"+k+" nonce "+nonce)
			return true
		}
	}
	return false
}

func (s *c03State) modelByNonce(n string) *mrec {
	for _, m := range s.model {
		if m.Nonce == n {
			return m
		}
	}
	return nil
}

func checkC03(p *C03Plan, rc *simkit.RunCtx) {
	if rc.Stats.Stalled {
		rc.Fail("C03.stall", "a database call never returned", rc.Stats.StallInfo)
	}
	if rc.Stats.StepCap {
		rc.Inconcl = "step-cap"
	}
}

func shrinkC03(p *C03Plan) []any {
	var out []any
	clone := func() *C03Plan {
		q := *p
		q.Ops = append([]C03Op(nil), p.Ops...)
		return &q
	}
	for i := range p.Ops {
		if len(p.Ops) > 1 {
			q := clone()
			q.Ops = append(q.Ops[:i], q.Ops[i+1:]...)
			out = append(out, q)
		}
	}
	if p.Cache != 0 {
		q := clone()
		q.Cache = 0
		out = append(out, q)
	}
	if p.Backend != "hashmap" {
		q := clone()
		q.Backend = "hashmap"
		out = append(out, q)
	}
	if p.Shadow {
		q := clone()
		q.Shadow = false
		out = append(out, q)
	}
	return out
}
