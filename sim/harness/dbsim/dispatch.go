package dbsim

import (
	"encoding/json"
	"fmt"
	"math/rand/v2"

	"github.com/safing/portbase/verifsim/simkit"
)

func (H) Generate(prop string, rng *rand.Rand, tier string) any {
	switch prop {
	case "C02":
		return genC02(rng, tier)
	case "C14":
		return genC14(rng, tier)
	case "C03":
		return genC03(rng, tier)
	}
	panic("dbsim: unknown property " + prop)
}

func (H) Decode(prop string, raw json.RawMessage) (any, error) {
	switch prop {
	case "C02":
		p := &C02Plan{}
		return p, json.Unmarshal(raw, p)
	case "C14":
		p := &C14Plan{}
		return p, json.Unmarshal(raw, p)
	case "C03":
		p := &C03Plan{}
		return p, json.Unmarshal(raw, p)
	}
	return nil, fmt.Errorf("dbsim: unknown property %s", prop)
}

func (H) Execute(prop string, plan any, rc *simkit.RunCtx) {
	switch prop {
	case "C02":
		execC02(plan.(*C02Plan), rc)
	case "C14":
		execC14(plan.(*C14Plan), rc)
	case "C03":
		execC03(plan.(*C03Plan), rc)
	}
}

func (H) Check(prop string, plan any, rc *simkit.RunCtx) {
	switch prop {
	case "C02":
		checkC02(plan.(*C02Plan), rc)
	case "C14":
		checkC14(plan.(*C14Plan), rc)
	case "C03":
		checkC03(plan.(*C03Plan), rc)
	}
}

func (H) Shrink(prop string, plan any) []any {
	switch prop {
	case "C02":
		return shrinkC02(plan.(*C02Plan))
	case "C14":
		return shrinkC14(plan.(*C14Plan))
	case "C03":
		return shrinkC03(plan.(*C03Plan))
	}
	return nil
}
