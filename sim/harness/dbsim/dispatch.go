package dbsim

import (
	"encoding/json"
	"fmt"
	"math/rand/v2"

	"github.com/safing/portbase/verifsim/simkit"
)

func (H) Generate(prop string, rng *rand.Rand, tier string) any {
	switch prop {
	case "C02":
		return genC02(rng, tier)
	}
	panic("dbsim: unknown property " + prop)
}

func (H) Decode(prop string, raw json.RawMessage) (any, error) {
	switch prop {
	case "C02":
		p := &C02Plan{}
		return p, json.Unmarshal(raw, p)
	}
	return nil, fmt.Errorf("dbsim: unknown property %s", prop)
}

func (H) Execute(prop string, plan any, rc *simkit.RunCtx) {
	switch prop {
	case "C02":
		execC02(plan.(*C02Plan), rc)
	}
}

func (H) Check(prop string, plan any, rc *simkit.RunCtx) {
	switch prop {
	case "C02":
		checkC02(plan.(*C02Plan), rc)
	}
}

func (H) Shrink(prop string, plan any) []any {
	switch prop {
	case "C02":
		return shrinkC02(plan.(*C02Plan))
	}
	return nil
}
