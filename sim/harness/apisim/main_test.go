//go:debug asynctimerchan=0
package apisim

import (
	"testing"

	"github.com/safing/portbase/verifsim/simkit"
)

func TestSim(t *testing.T) { simkit.Main(t, "apisim", H{}) }
