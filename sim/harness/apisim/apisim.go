// Package apisim drives the HTTP API's authentication and dispatch inside the
// simulator (C12, and the API-handler clause of C06).
package apisim

import (
	"encoding/base64"
	"encoding/json"
	"errors"
	"fmt"
	"github.com/safing/portbase/database/record"
	"github.com/safing/portbase/formats/dsd"
	"math/rand/v2"
	"net/http"
	"net/http/httptest"
	"net/url"
	"strconv"
	"strings"
	"time"

	"github.com/safing/portbase/api"
	"github.com/safing/portbase/config"
	"github.com/safing/portbase/database"
	"github.com/safing/portbase/log"
	"github.com/safing/portbase/modules"
	"github.com/safing/portbase/rng"
	"github.com/safing/portbase/verifsim/simkit"
	"github.com/safing/portbase/verifsim/simrt"
)

// H is the harness.
type H struct{}

var permPool = []int{-2, -1, 0, 1, 2, 3, 4, 5, -3}
var methods = []string{"GET", "HEAD", "POST", "PUT", "DELETE", "PATCH", "OPTIONS", "OPTIONS+GET", "OPTIONS+POST"}
var origins = []string{"", "http://api.local", "http://api.local:817", "http://evil.example", "chrome-extension://abcdef", "http://localhost", "http://127.0.0.1:4200", "http://[::1", "null", "http://api.local:9999", "https://api.local"}

var hosts = []string{"api.local", "api.local:817"}

var host = hosts[0]

// KeySpec is one configured API key.
type KeySpec struct {
	Read    int `json:"read"` // 0 omitted 1 anyone 2 user 3 admin 4 invalid
	Write   int `json:"write"`
	Expires int `json:"expires"` // 0 none, 1 in 10 minutes, 2 already past
}

// Step is one step of a history.
type Step struct {
	Kind      string    `json:"k"` // req advance setkeys dev clean
	Method    int       `json:"method,omitempty"`
	ReqR      int       `json:"req_r,omitempty"` // index into permPool
	ReqW      int       `json:"req_w,omitempty"`
	Cred      string    `json:"cred,omitempty"` // none bearer basic unknown short malformed cookie badcookie bridge
	Key       int       `json:"key,omitempty"`
	Short     int       `json:"short,omitempty"`
	Cookie    int       `json:"cookie,omitempty"`
	Auth      string    `json:"auth,omitempty"` // authenticator behaviour if consulted: token nil error denied
	AuthR     int       `json:"auth_r,omitempty"`
	AuthW     int       `json:"auth_w,omitempty"`
	Origin    int       `json:"origin,omitempty"`
	Host      int       `json:"host,omitempty"`
	Panic     bool      `json:"panic,omitempty"`
	PanicLate bool      `json:"panic_late,omitempty"` // the handler has already started its response when it panics
	Via       int       `json:"via,omitempty"`        // 0 a custom http.Handler; 1-5 a registered Endpoint with ActionFunc, DataFunc, StructFunc, RecordFunc, HandlerFunc; 6 a handler function wrapped with WrapInAuthHandler
	Secs      int       `json:"secs,omitempty"`
	Keys      []KeySpec `json:"keys,omitempty"`
	Dev       bool      `json:"dev,omitempty"`
	Table     bool      `json:"table,omitempty"` // part of the exhaustively enumerated decision table
}

// Plan is one request history.
type Plan struct {
	WithAuthenticator bool   `json:"with_authenticator"`
	Steps             []Step `json:"steps"`
	// Noise: a second client is busy at the same time: requests with unknown cookies and keys (refused: the handler wants
	// a user), and session clean-ups. None of it changes what any credential grants.
	Noise int `json:"noise,omitempty"`
}

func (H) Generate(prop string, rng *rand.Rand, tier string) any {
	if prop == "C13" {
		return genC13(rng, tier)
	}
	if simkit.RunIndex%4 == 0 {
		return tablePlan(simkit.RunIndex / 4)
	}
	p := &Plan{WithAuthenticator: rng.IntN(3) != 0}
	if rng.IntN(3) == 0 {
		p.Noise = 2 + rng.IntN(10)
	}
	n := 3 + rng.IntN(16)
	creds := []string{"none", "bearer", "basic", "unknown", "short", "malformed", "cookie", "badcookie", "bridge"}
	for i := 0; i < n; i++ {
		s := Step{}
		switch r := rng.IntN(20); {
		case r < 13 || i == 0:
			s.Kind = "req"
			if i == 0 {
				s.Kind = "setkeys"
			}
		case r < 15:
			s.Kind = "advance"
		case r < 16:
			s.Kind = "setkeys"
		case r < 17:
			s.Kind = "reset"
		case r < 18:
			s.Kind = "dev"
		default:
			s.Kind = "clean"
		}
		s.Method = rng.IntN(len(methods))
		s.ReqR, s.ReqW = rng.IntN(len(permPool)), rng.IntN(len(permPool))
		if rng.IntN(2) == 0 {
			// mostly sensible handlers
			s.ReqR, s.ReqW = 3+rng.IntN(4), 3+rng.IntN(4)
		}
		s.Cred = creds[rng.IntN(len(creds))]
		s.Key = rng.IntN(4)
		s.Short = rng.IntN(4)
		s.Cookie = rng.IntN(3)
		s.Auth = []string{"token", "token", "nil", "error", "denied"}[rng.IntN(5)]
		s.AuthR, s.AuthW = 3+rng.IntN(4), 3+rng.IntN(4)
		if rng.IntN(6) == 0 {
			s.AuthR, s.AuthW = rng.IntN(len(permPool)), rng.IntN(len(permPool))
		}
		if rng.IntN(3) == 0 {
			s.Origin = rng.IntN(len(origins))
			s.Host = rng.IntN(len(hosts))
		}
		s.Panic = prop == "C06" || rng.IntN(12) == 0
		s.PanicLate = s.Panic && rng.IntN(3) == 0
		if rng.IntN(3) == 0 {
			s.Via = 1 + rng.IntN(6)
		}
		s.Secs = []int{1, 60, 240, 290, 310, 360, 700}[rng.IntN(7)]
		s.Dev = rng.IntN(2) == 0
		if s.Kind == "setkeys" {
			k := rng.IntN(5)
			for j := 0; j < k; j++ {
				s.Keys = append(s.Keys, KeySpec{Read: rng.IntN(5), Write: rng.IntN(5), Expires: rng.IntN(3)})
			}
		}
		p.Steps = append(p.Steps, s)
	}
	if prop == "C12" && rng.IntN(10) == 0 {
		// session life: a session is created, used several times in a row (every use restarts its five minutes),
		// then left alone for longer than that and presented again
		p.WithAuthenticator = true
		user := 4 // permPool index of a user-level permission
		mk := func(cred string) Step {
			return Step{Kind: "req", Method: 0, ReqR: user, ReqW: user, Cred: cred, Auth: "token", AuthR: 4, AuthW: 4, Secs: 1}
		}
		p.Steps = append(p.Steps, mk("none"))
		for i, n := 0, 1+rng.IntN(4); i < n; i++ {
			p.Steps = append(p.Steps, Step{Kind: "advance", Secs: []int{1, 60, 240}[rng.IntN(3)]}, mk("cookie"))
		}
		p.Steps = append(p.Steps, Step{Kind: "advance", Secs: []int{290, 310, 360, 700}[rng.IntN(4)]}, mk("cookie"))
		for i := range p.Steps {
			if p.Steps[i].Kind == "reset" || p.Steps[i].Kind == "dev" {
				p.Steps[i].Kind = "advance"
			}
		}
	}
	return p
}

func (H) Decode(prop string, raw json.RawMessage) (any, error) {
	if prop == "C13" {
		p := &DBPlan{}
		return p, json.Unmarshal(raw, p)
	}
	p := &Plan{}
	return p, json.Unmarshal(raw, p)
}

func (H) Tune(prop string, plan any, cfg *simrt.Config) {
	cfg.MaxSteps = 400000
	// C13: "no message crashes the process" includes the runtime's abort on overlapping map accesses, which cannot
	// happen inside the simulation: predict it from happens-before instead
	cfg.Race = prop == "C13" || prop == "C12"
	if dp, ok := plan.(*DBPlan); ok && dp.Stall > 0 {
		cfg.MaxSteps = 1500000 // a thousand writes and their notifications
	}
	cfg.MaxAdvIdx = 1 // expiry times are compared with the model: only millisecond clock steps while a request is in flight
	if cfg.PAdvance > 0.01 {
		cfg.PAdvance = 0.01
	}
}

var registered bool

type handlerT struct{}

type obs struct {
	ran   bool
	token *api.AuthToken
}

var curObs *obs
var curPanic, curPanicLate bool

func permFromPath(r *http.Request, idx int) api.Permission {
	parts := strings.Split(strings.Trim(r.URL.Path, "/"), "/")
	if len(parts) < 3 {
		return api.NotFound
	}
	v, _ := strconv.Atoi(parts[idx])
	return api.Permission(v)
}

func (handlerT) ReadPermission(r *http.Request) api.Permission  { return permFromPath(r, 1) }
func (handlerT) WritePermission(r *http.Request) api.Permission { return permFromPath(r, 2) }
func (handlerT) ServeHTTP(w http.ResponseWriter, r *http.Request) {
	if curObs != nil {
		curObs.ran = true
		if ar := api.GetAPIRequest(r); ar != nil {
			curObs.token = copyToken(ar.AuthToken)
			tamper(ar)
		}
	}
	if curPanic {
		if curPanicLate {
			w.WriteHeader(http.StatusAccepted)
			_, _ = w.Write([]byte("partial "))
		}
		panic("injected handler panic")
	}
	w.WriteHeader(http.StatusOK)
	_, _ = w.Write([]byte("handler ran"))
}

func (H) Reset() {
	log.VerifSimReset()
	modules.VerifSimReset()
	database.VerifSimReset()
	if !registered {
		registered = true
		if err := config.VerifSimRegisterBasic(); err != nil {
			panic(err)
		}
		if err := api.VerifSimInit(); err != nil {
			panic(err)
		}
		api.RegisterHandler("/vs/{r}/{w}", handlerT{})
		api.RegisterHandler("/vs-bg", api.WrapInAuthHandler(func(rw http.ResponseWriter, req *http.Request) {
			_, _ = rw.Write([]byte("ok"))
		}, api.PermitUser, api.PermitUser))
		// the convenience wrapper: a plain handler function with fixed permissions
		seen := map[[2]int]bool{}
		for _, r := range permPool {
			for _, w := range permPool {
				if seen[[2]int{r, w}] {
					continue
				}
				seen[[2]int{r, w}] = true
				api.RegisterHandler(fmt.Sprintf("/vs-wrap/%d/%d", r, w), api.WrapInAuthHandler(func(rw http.ResponseWriter, req *http.Request) {
					epRan(api.GetAPIRequest(req))
					if curPanicLate {
						rw.WriteHeader(http.StatusAccepted)
					}
					_, _ = rw.Write([]byte("wrapped handler ran"))
				}, api.Permission(r), api.Permission(w)))
			}
		}
	}
	config.VerifSimMuteEvents()
	modules.VerifSimRenewContext(api.VerifSimModule())
	api.VerifSimResetPackage()
	api.VerifSimResetRun()
	if err := api.VerifSimRegisterMeta(); err != nil {
		panic(err)
	}
	rng.VerifSimSeed([]byte("verif deterministic seed 0123456789abcdef"))
}

// drainReports moves what is on the module error channel into the state and returns all reports so far.
func (s *state) drainReports() []*modules.ModuleError {
	for {
		select {
		case me := <-s.errCh:
			s.reports = append(s.reports, me)
		default:
			return s.reports
		}
	}
}

// endpoint function bodies: record the invocation like the custom handler does
// copyToken: what the handler saw, kept apart from what it does to its token afterwards.
func copyToken(t *api.AuthToken) *api.AuthToken {
	if t == nil {
		return nil
	}
	c := *t
	return &c
}

// tamper: a handler that raises the permissions in the token of its own request (what a credential grants to later
// requests must not depend on it).
func tamper(ar *api.Request) {
	if ar != nil && ar.AuthToken != nil && curTamper {
		ar.AuthToken.Read, ar.AuthToken.Write = api.PermitSelf, api.PermitSelf
	}
}

var curTamper bool

func epRan(ar *api.Request) {
	if curObs != nil {
		curObs.ran = true
		if ar != nil {
			curObs.token = copyToken(ar.AuthToken)
			tamper(ar)
		}
	}
	if curPanic {
		panic("injected handler panic")
	}
}

func registerEndpoint(path string, r, w, via int) error {
	if _, err := api.GetEndpointByPath(path); err == nil {
		return nil
	}
	e := api.Endpoint{Path: path, Read: api.Permission(r), Write: api.Permission(w), Name: "sim endpoint"}
	switch via {
	case 1:
		e.ActionFunc = func(ar *api.Request) (string, error) { epRan(ar); return "done", nil }
	case 2:
		e.DataFunc = func(ar *api.Request) ([]byte, error) { epRan(ar); return []byte("data"), nil }
	case 3:
		e.StructFunc = func(ar *api.Request) (interface{}, error) { epRan(ar); return map[string]int{"a": 1}, nil }
	case 4:
		e.RecordFunc = func(ar *api.Request) (record.Record, error) {
			epRan(ar)
			w, err := record.NewWrapper("sim:rec", &record.Meta{}, dsd.JSON, []byte(`{"a":1}`))
			return w, err
		}
	default:
		e.HandlerFunc = func(w http.ResponseWriter, r *http.Request) {
			epRan(api.GetAPIRequest(r))
			if curPanicLate {
				w.WriteHeader(http.StatusAccepted)
			}
			_, _ = w.Write([]byte("handler func ran"))
		}
	}
	return api.RegisterEndpoint(e)
}

func keyName(i int) string { return fmt.Sprintf("k%dsecretkey", i) }

type keyModel struct {
	read, write int // permission values
	validUntil  time.Time
	hasExpiry   bool
}

type sessModel struct {
	r, w       int
	validUntil time.Time
	value      string
}

type state struct {
	rc            *simkit.RunCtx
	keys          map[string]*keyModel
	sessions      []*sessModel
	dev           bool
	authCalls     int
	authBehaviour Step
	requests      int
	reports       []*modules.ModuleError
	errCh         chan *modules.ModuleError
	noiseCh       chan struct{} // C12: tokens for the second client
}

func permVal(spec int) (int, bool) {
	switch spec {
	case 0, 1:
		return 1, true
	case 2:
		return 2, true
	case 3:
		return 3, true
	}
	return 0, false
}

func permStr(spec int) string {
	return []string{"", "anyone", "user", "admin", "bogus"}[spec]
}

func (H) Execute(prop string, plan any, rc *simkit.RunCtx) {
	if prop == "C13" {
		execC13(plan.(*DBPlan), rc)
		return
	}
	p := plan.(*Plan)
	s := &state{rc: rc, keys: map[string]*keyModel{}}
	rc.Data = s
	withAuth = p.WithAuthenticator
	_ = config.SetConfigOption(api.CfgAPIKeys, nil)
	_ = config.SetConfigOption(config.CfgDevModeKey, false)
	if p.WithAuthenticator {
		err := api.SetAuthenticator(func(r *http.Request, srv *http.Server) (*api.AuthToken, error) {
			if r.Header.Get("X-Sim-Noise") != "" {
				return nil, nil
			}
			s.authCalls++
			b := s.authBehaviour
			switch b.Auth {
			case "nil":
				return nil, nil
			case "error":
				return nil, errors.New("authenticator internal error")
			case "denied":
				return nil, api.ErrAPIAccessDeniedMessage
			}
			return &api.AuthToken{Read: api.Permission(permPool[b.AuthR]), Write: api.Permission(permPool[b.AuthW])}, nil
		})
		if err != nil {
			rc.Fail("C12.harness", "SetAuthenticator failed", err.Error())
			return
		}
	}
	s.errCh = make(chan *modules.ModuleError, 64)
	modules.SetErrorReportingChannel(s.errCh)
	h := api.VerifSimHandler()
	if p.Noise > 0 && prop == "C12" {
		// the second client acts whenever the first one sends a request (one token per request), so that the two are
		// busy at the same time
		noiseDone := make(chan struct{})
		s.noiseCh = make(chan struct{}, 64)
		go func() {
			defer close(noiseDone)
			i := 0
			for range s.noiseCh {
				i++
				if i > p.Noise*4 {
					continue
				}
				switch i % 3 {
				case 0, 1:
					req := httptest.NewRequest("GET", "http://"+hosts[0]+"/vs-bg", nil)
					req.Host = hosts[0]
					req.RemoteAddr = "10.9.9.9:4444"
					req.Header.Set("X-Sim-Noise", "1")
					if i%3 == 0 {
						req.AddCookie(&http.Cookie{Name: "Portmaster-API-Token", Value: fmt.Sprintf("no-such-session-%d", i)})
					} else {
						req.Header.Set("Authorization", fmt.Sprintf("Bearer no-such-key-%d", i))
					}
					h.ServeHTTP(httptest.NewRecorder(), req)
				default:
					api.VerifSimCleanSessions()
				}
			}
		}()
		defer func() {
			close(s.noiseCh)
			<-noiseDone
		}()
		rc.Probe("second-client-busy")
	}
	for si, st := range p.Steps {
		if rc.Failed() {
			return
		}
		switch st.Kind {
		case "advance":
			time.Sleep(time.Duration(st.Secs) * time.Second)
		case "dev":
			if !st.Dev && st.Secs%3 == 0 {
				// back to the default (off) by clearing the option
				_ = config.SetConfigOption(config.CfgDevModeKey, nil)
				rc.Probe("dev-mode-reset-to-default")
			} else {
				_ = config.SetConfigOption(config.CfgDevModeKey, st.Dev)
			}
			s.dev = st.Dev
		case "reset":
			// the client resets its authentication: its session is gone afterwards
			if len(s.sessions) == 0 {
				break
			}
			k := st.Cookie % len(s.sessions)
			req := httptest.NewRequest("GET", "http://"+hosts[0]+"/api/v1/auth/reset", nil)
			req.Host = hosts[0]
			req.RemoteAddr = "10.1.2.3:5555"
			req.AddCookie(&http.Cookie{Name: "Portmaster-API-Token", Value: s.sessions[k].value})
			rec := httptest.NewRecorder()
			h.ServeHTTP(rec, req)
			// (kept in the model as a dead session, so that the old cookie is presented again later)
			s.sessions[k].validUntil = time.Time{}.Add(time.Hour)
			rc.Probe("session-reset")
		case "clean":
			api.VerifSimCleanSessions()
		case "setkeys":
			var cfg []string
			s.keys = map[string]*keyModel{}
			now := time.Now()
			for i, k := range st.Keys {
				q := url.Values{}
				if k.Read != 0 {
					q.Set("read", permStr(k.Read))
				}
				if k.Write != 0 {
					q.Set("write", permStr(k.Write))
				}
				km := &keyModel{}
				switch k.Expires {
				case 1:
					km.validUntil, km.hasExpiry = now.Add(10*time.Minute), true
					q.Set("expires", km.validUntil.UTC().Format(time.RFC3339))
				case 2:
					km.validUntil, km.hasExpiry = now.Add(-time.Minute), true
					q.Set("expires", km.validUntil.UTC().Format(time.RFC3339))
				}
				cfg = append(cfg, keyName(i)+"?"+q.Encode())
				r, okr := permVal(k.Read)
				w, okw := permVal(k.Write)
				if okr && okw && k.Expires != 2 {
					km.read, km.write = r, w
					s.keys[keyName(i)] = km
				}
			}
			if err := config.SetConfigOption(api.CfgAPIKeys, cfg); err != nil {
				rc.Fail("C12.harness", "setting API keys failed", err.Error())
				return
			}
			api.VerifSimUpdateAPIKeys()
			// an expired configured key makes the package schedule a clean-up microtask that rewrites the option
			simrt.AwaitQuiescence(10 * time.Second)
		case "req":
			s.request(si, st, h)
		}
	}
}

type expect struct {
	runs        bool
	crossOrigin bool
	preflight   bool
	effR, effW  int
	checkToken  bool
	why         string
}

func (s *state) request(si int, st Step, h http.Handler) {
	rc := s.rc
	s.requests++
	rng.VerifSimFeed()
	m := methods[st.Method]
	acrm := ""
	if strings.HasPrefix(m, "OPTIONS+") {
		acrm = strings.TrimPrefix(m, "OPTIONS+")
		m = "OPTIONS"
	}
	reqR, reqW := permPool[st.ReqR], permPool[st.ReqW]
	host = hosts[st.Host%len(hosts)]
	url := fmt.Sprintf("http://%s/vs/%d/%d", host, reqR, reqW)
	via := st.Via
	if via == 6 {
		url = fmt.Sprintf("http://%s/vs-wrap/%d/%d", host, reqR, reqW)
		rc.Probe("request-to-wrapped-handler")
	} else if via > 0 {
		// an Endpoint of the chosen function type with these permissions (registered on first use; permissions an
		// Endpoint cannot be registered with fall back to the custom handler)
		path := fmt.Sprintf("vs-ep/%d/%d/%d", reqR, reqW, via)
		if err := registerEndpoint(path, reqR, reqW, via); err != nil {
			via = 0
		} else {
			url = fmt.Sprintf("http://%s/api/v1/%s", host, path)
			rc.Probe("request-to-endpoint-" + []string{"", "action", "data", "struct", "record", "handlerfunc"}[via])
		}
	}
	req := httptest.NewRequest(m, url, nil)
	req.Host = host
	req.RemoteAddr = "10.1.2.3:5555"
	if acrm != "" {
		req.Header.Set("Access-Control-Request-Method", acrm)
	}
	origin := origins[st.Origin]
	if origin != "" {
		req.Header.Set("Origin", origin)
	}
	now := time.Now()
	// credentials as presented; model of what they grant
	var keyTok, cookieTok *[2]int
	switch st.Cred {
	case "bearer", "basic":
		name := keyName(st.Key)
		if st.Cred == "bearer" {
			req.Header.Set("Authorization", "Bearer "+name)
		} else {
			req.Header.Set("Authorization", "Basic "+base64.StdEncoding.EncodeToString([]byte(name[:2]+":"+name[2:])))
		}
		if km := s.keys[name]; km != nil && !(km.hasExpiry && now.After(km.validUntil)) {
			keyTok = &[2]int{km.read, km.write}
		}
		if km := s.keys[name]; km != nil && km.hasExpiry {
			if d := now.Sub(km.validUntil); d > -2*time.Second && d < 2*time.Second {
				rc.Probe("key-expiry-boundary-skipped")
				return
			}
		}
	case "unknown":
		req.Header.Set("Authorization", "Bearer totally-unknown-key")
	case "short":
		req.Header.Set("Authorization", "Bearer "+"abc"[:st.Short%4])
	case "malformed":
		req.Header.Set("Authorization", []string{"Bearer", "Token abc", "Basic !!!", "bearer lower"}[st.Short%4])
	case "cookie", "badcookie":
		val := "unknown-session-value"
		if st.Cred == "cookie" && len(s.sessions) > 0 {
			sm := s.sessions[st.Cookie%len(s.sessions)]
			val = sm.value
			if !now.After(sm.validUntil) {
				cookieTok = &[2]int{sm.r, sm.w}
			}
			if d := now.Sub(sm.validUntil); d > -2*time.Second && d < 2*time.Second {
				rc.Probe("session-expiry-boundary-skipped")
				return
			}
		}
		req.AddCookie(&http.Cookie{Name: "Portmaster-API-Token", Value: val})
	case "bridge":
		req.RemoteAddr = api.VerifSimBridgeAddr
	}
	s.authBehaviour = st
	if s.noiseCh != nil {
		select {
		case s.noiseCh <- struct{}{}:
		default:
		}
	}
	ex := s.decide(st, m, acrm, reqR, reqW, origin, keyTok, cookieTok)
	o := &obs{}
	curObs, curPanic, curPanicLate = o, st.Panic, st.PanicLate
	curTamper = st.Secs%2 == 0 // half of the handlers tamper with their token
	before := s.authCalls
	reportsBefore := len(s.drainReports())
	rec := httptest.NewRecorder()
	func() {
		defer func() {
			if r := recover(); r != nil {
				rc.Fail("C12.panic", "a request made the server panic", fmt.Sprintf("step %d %+v: %v", si, st, r))
			}
		}()
		h.ServeHTTP(rec, req)
	}()
	curObs, curPanic, curPanicLate = nil, false, false
	if rc.Failed() {
		return
	}
	status := rec.Code
	if st.Panic && o.ran {
		// C06: the panic of a request handler is reported through the module error channel, as a panic, with the value
		reps := s.drainReports()
		switch {
		case len(reps) != reportsBefore+1:
			rc.Fail("C06.api-panic-not-reported", "the panic of an API request handler was not reported through the module error channel exactly once", fmt.Sprintf("step %d (response already started: %v): %d reports", si, st.PanicLate, len(reps)-reportsBefore))
			return
		default:
			me := reps[len(reps)-1]
			if ok, _ := modules.IsPanic(me); !ok || fmt.Sprint(me.PanicValue) != "injected handler panic" || me.StackTrace == "" {
				rc.Fail("C06.api-panic-report", "the report of a panicking API request handler does not identify itself as a panic with value and stack trace", fmt.Sprintf("step %d: %+v", si, me.Message))
				return
			}
		}
	}
	authInvoked := s.authCalls > before
	desc := fmt.Sprintf("step %d: %s required r=%d w=%d cred=%s origin=%q auth=%s(%d,%d) dev=%v -> status %d ran=%v; expected: %s",
		si, methods[st.Method], reqR, reqW, st.Cred, origin, st.Auth, permPool[st.AuthR], permPool[st.AuthW], s.dev, status, o.ran, ex.why)
	rc.H("%s %s -> %d", methods[st.Method], st.Cred, status)
	if st.Table {
		rc.Probe("table-cells-enumerated")
	}
	credNote := credClass(st)
	switch {
	case ex.crossOrigin:
		if o.ran || authInvoked {
			rc.Fail("C12.cross-origin", "a cross-origin request that matches no exception reached the authenticator or the handler", desc)
		} else if status != 403 {
			rc.Fail("C12.refusal-status", "a refused request was not answered with 401, 403, 404, 405 or 500", desc)
		}
		return
	case ex.preflight:
		if o.ran {
			rc.Fail("C12.preflight-ran-handler", "a CORS preflight request invoked the handler", desc)
		}
		return
	case ex.runs && via > 0 && via < 6 && m == "OPTIONS":
		// an Endpoint answers OPTIONS itself (204) without calling its function
		return
	case ex.runs:
		if !o.ran {
			rc.Fail("C12.wrongly-refused", "a request holding the required permission was refused ("+credNote+")", desc)
			return
		}
		if ex.checkToken && o.token != nil && (int(o.token.Read) != ex.effR || int(o.token.Write) != ex.effW) {
			rc.Fail("C12.wrong-token", "the handler saw a permission other than what the credential grants ("+credNote+")", desc+fmt.Sprintf("; token %d/%d want %d/%d", o.token.Read, o.token.Write, ex.effR, ex.effW))
			return
		}
		if st.Panic && status != 500 && !st.PanicLate {
			rc.Fail("C06.api-panic-status", "a panicking API handler was not answered with 500", desc)
			return
		}
		if st.Panic {
			rc.Fault("api-handler-panic")
		}
	default:
		if o.ran {
			rc.Fail("C12.ran-without-permission", "the handler was invoked for a request that does not hold the required permission ("+credNote+")", desc)
			return
		}
		switch status {
		case 401, 403, 404, 405, 500:
		default:
			rc.Fail("C12.refusal-status", "a refused request was not answered with 401, 403, 404, 405 or 500 ("+credNote+")", desc)
			return
		}
	}
	// session bookkeeping: a token returned by the authenticator creates a session
	for _, c := range rec.Result().Cookies() {
		if c.Name == "Portmaster-API-Token" {
			s.sessions = append(s.sessions, &sessModel{r: permPool[st.AuthR], w: permPool[st.AuthW], validUntil: now.Add(5 * time.Minute), value: c.Value})
			rc.Probe("session-created")
		}
	}
	if cookieTok != nil && keyTok == nil && !s.dev && st.Cred == "cookie" && len(s.sessions) > 0 && !ex.crossOrigin {
		// a valid cookie that was consulted is refreshed
		if consulted(reqR, reqW, m, acrm) {
			s.sessions[st.Cookie%len(s.sessions)].validUntil = now.Add(5 * time.Minute)
			rc.Probe("session-refreshed")
		}
	}
}

func credClass(st Step) string {
	if st.Cred == "short" {
		return fmt.Sprintf("unknown Bearer key of %d bytes", st.Short%4)
	}
	return "credential " + st.Cred
}

// consulted reports whether credentials are looked at for this request at all.
func consulted(reqR, reqW int, m, acrm string) bool {
	class, ok := methodClass(m, acrm)
	if !ok {
		return false
	}
	req := reqR
	if class == "write" {
		req = reqW
	}
	return req == -1 || (req >= 2 && req <= 4)
}

func methodClass(m, acrm string) (string, bool) {
	if m == "OPTIONS" {
		if acrm == "" {
			return "", false
		}
		m = acrm
	}
	switch m {
	case "GET", "HEAD":
		return "read", true
	case "POST", "PUT", "DELETE":
		return "write", true
	}
	return "", false
}

// decide is the decision function transcribed from the statement.
func (s *state) decide(st Step, m, acrm string, reqR, reqW int, origin string, keyTok, cookieTok *[2]int) expect {
	if origin != "" {
		u, err := url.Parse(origin)
		allowed := false
		if err == nil {
			switch {
			case u.Host == host, u.Hostname() == host:
				allowed = true
			case u.Scheme == "chrome-extension":
				allowed = true
			case s.dev && (u.Hostname() == "localhost" || u.Hostname() == "127.0.0.1"):
				allowed = true
			}
		}
		if !allowed {
			return expect{crossOrigin: true, why: "cross-origin refusal"}
		}
	}
	class, ok := methodClass(m, acrm)
	if !ok {
		return expect{why: "method without class: refused"}
	}
	if m == "OPTIONS" && acrm != "" && origin != "" {
		return expect{preflight: true, why: "preflight"}
	}
	req := reqR
	if class == "write" {
		req = reqW
	}
	switch req {
	case -2, 0:
		return expect{why: "not found / not supported: never invoked"}
	case 1:
		return expect{runs: true, why: "anyone"}
	case -1:
		req = 1
	}
	if req < 1 || req > 4 {
		return expect{why: "handler declares an invalid permission: refused"}
	}
	// effective permission
	var eff *[2]int
	switch {
	case s.dev:
		eff = &[2]int{4, 4}
	case st.Cred == "bridge":
		eff = &[2]int{3, 3}
	case keyTok != nil:
		eff = keyTok
	case cookieTok != nil:
		eff = cookieTok
	default:
		if s.authBehaviour.Auth != "" && authSet(s) {
			switch st.Auth {
			case "token":
				eff = &[2]int{permPool[st.AuthR], permPool[st.AuthW]}
			case "error":
				return expect{why: "authenticator error: refused"}
			case "denied":
				if req > 1 {
					return expect{why: "authenticator denied: refused"}
				}
			}
		}
	}
	if eff == nil {
		eff = &[2]int{1, 1}
	}
	have := eff[0]
	if class == "write" {
		have = eff[1]
	}
	if have < 1 || have > 4 {
		return expect{why: "credential grants an invalid permission: refused"}
	}
	if have < req {
		return expect{why: fmt.Sprintf("effective %d < required %d: refused", have, req)}
	}
	return expect{runs: true, effR: eff[0], effW: eff[1], checkToken: true, why: fmt.Sprintf("effective %d >= required %d: invoked", have, req)}
}

var withAuth bool

func authSet(s *state) bool { return withAuth }

func (H) Check(prop string, plan any, rc *simkit.RunCtx) {
	if prop == "C13" {
		checkC13(plan.(*DBPlan), rc)
		return
	}
	if s, ok := rc.Data.(*state); ok {
		rc.Probes["requests"] += s.requests
	}
	if rc.Stats.Stalled {
		rc.Fail("C12.stall", "a request never returned", rc.Stats.StallInfo)
	}
	if rc.Stats.StepCap {
		rc.Inconcl = "step-cap"
	}
}

func (H) Shrink(prop string, plan any) []any {
	if prop == "C13" {
		return shrinkC13(plan.(*DBPlan))
	}
	p := plan.(*Plan)
	var out []any
	for i := range p.Steps {
		if len(p.Steps) > 1 {
			q := *p
			q.Steps = append(append([]Step(nil), p.Steps[:i]...), p.Steps[i+1:]...)
			out = append(out, &q)
		}
	}
	for i, st := range p.Steps {
		if st.Origin != 0 {
			q := *p
			q.Steps = append([]Step(nil), p.Steps...)
			q.Steps[i].Origin = 0
			out = append(out, &q)
		}
		if st.Panic {
			q := *p
			q.Steps = append([]Step(nil), p.Steps...)
			q.Steps[i].Panic = false
			out = append(out, &q)
		}
		if len(st.Keys) > 1 {
			q := *p
			q.Steps = append([]Step(nil), p.Steps...)
			q.Steps[i].Keys = st.Keys[:1]
			out = append(out, &q)
		}
	}
	return out
}

// ---- exhaustive part: the decision table (handler permission pair x method x credential state), partitioned over runs

type credState struct {
	cred         string
	key, short   int
	auth         string
	authR, authW int
}

var tableCreds = func() []credState {
	cs := []credState{
		{cred: "none", auth: "nil"},
		{cred: "bearer", key: 0}, {cred: "bearer", key: 1}, {cred: "bearer", key: 2}, {cred: "basic", key: 0}, {cred: "bearer", key: 3},
		{cred: "unknown"}, {cred: "short", short: 0}, {cred: "short", short: 1}, {cred: "short", short: 3},
		{cred: "malformed", short: 0}, {cred: "malformed", short: 2}, {cred: "badcookie", auth: "nil"}, {cred: "bridge"},
		{cred: "none", auth: "error"}, {cred: "none", auth: "denied"},
	}
	for _, perm := range []int{3, 4, 5, 6} { // Anyone, User, Admin, Self via the authenticator
		cs = append(cs, credState{cred: "none", auth: "token", authR: perm, authW: perm})
	}
	return cs
}()

// TableSize is the number of cells of the decision table.
func TableSize() int { return len(permPool) * len(permPool) * len(methods) * len(tableCreds) }

const cellsPerRun = 12

func tablePlan(part int) *Plan {
	p := &Plan{WithAuthenticator: true}
	// key 0: admin/admin, key 1: user/user, key 2: read admin / write anyone, key 3: expired
	p.Steps = append(p.Steps, Step{Kind: "setkeys", Keys: []KeySpec{{Read: 3, Write: 3}, {Read: 2, Write: 2}, {Read: 3, Write: 1}, {Read: 3, Write: 3, Expires: 2}}})
	total := TableSize()
	for j := 0; j < cellsPerRun; j++ {
		cell := (part*cellsPerRun + j) % total
		c := cell
		cr := tableCreds[c%len(tableCreds)]
		c /= len(tableCreds)
		m := c % len(methods)
		c /= len(methods)
		w := c % len(permPool)
		r := c / len(permPool)
		st := Step{Kind: "req", Method: m, ReqR: r, ReqW: w, Cred: cr.cred, Key: cr.key, Short: cr.short, Auth: cr.auth, AuthR: cr.authR, AuthW: cr.authW, Table: true}
		if st.Auth == "" {
			st.Auth = "nil"
		}
		p.Steps = append(p.Steps, st)
	}
	return p
}
