package apisim

import (
	"github.com/gorilla/websocket"
	"encoding/json"
	"fmt"
	"math/rand/v2"
	"os"
	"reflect"
	"strings"
	"sync"
	"time"

	"github.com/safing/portbase/api"
	"github.com/safing/portbase/database"
	"github.com/safing/portbase/database/query"
	"github.com/safing/portbase/database/record"
	_ "github.com/safing/portbase/database/storage/bbolt"
	_ "github.com/safing/portbase/database/storage/hashmap"
	"github.com/safing/portbase/formats/dsd"
	"github.com/safing/portbase/verifsim/simkit"
	"github.com/safing/portbase/verifsim/simrt"
)

// DBPlan is one database-API scenario (C13).
type DBPlan struct {
	Backend   string   `json:"backend"`
	Conns     [][]DMsg `json:"conns"`
	Writes    []DWrite `json:"writes,omitempty"`
	Shadow    bool     `json:"shadow,omitempty"`     // the database keeps deleted records (shadow delete)
	Veto      bool     `json:"veto,omitempty"`       // a pre-put hook rejects every write to one key
	SlowQuery int      `json:"slow_query,omitempty"` // >0: this many extra records are stored, and the client of the first connection stops reading for a few seconds after the first record of its first request (a query or qsub) arrived
	WS        bool     `json:"ws,omitempty"`         // the connections are websocket connections to the package's websocket handler (send queue, writer and handler workers) instead of CreateDatabaseAPI with a send function
	Stall     int      `json:"stall,omitempty"`      // >0: flood scenario: the first connection's client stops reading after its first notification while another connection makes this many writes
}

// DMsg is one message sent on a connection.
type DMsg struct {
	Kind  string `json:"k"` // get query sub qsub create update insert delete cancel raw
	Key   int    `json:"key,omitempty"`
	Query int    `json:"query,omitempty"`
	Body  int    `json:"body,omitempty"`
	Ref   int    `json:"ref,omitempty"` // cancel: index of the message whose operation is cancelled (-1: unknown id)
	Raw   string `json:"raw,omitempty"`
	Gap   int    `json:"gap,omitempty"`
	Twice bool   `json:"twice,omitempty"` // cancel: sent twice back to back
}

// DWrite is a write by the concurrent privileged writer.
type DWrite struct {
	Key    int  `json:"key"`
	Delete bool `json:"delete,omitempty"`
	Gap    int  `json:"gap,omitempty"`
}

// vetoHook rejects every put below its query (makes the write step of update/insert/delete fail after a successful read).
type vetoHook struct {
	database.HookBase
}

func (vetoHook) UsesPrePut() bool { return true }
func (vetoHook) PrePut(r record.Record) (record.Record, error) {
	return nil, fmt.Errorf("put rejected by harness hook")
}

type Rec struct {
	record.Base
	sync.Mutex
	N string
	S string
}

var dKeys = []string{"testdb:json/a", "testdb:json/b", "testdb:struct/c", "testdb:raw/d", "testdb:missing/e", "testdb:json/new1", "testdb:json/new2", "nodb:x", "testdb:", "bad key", "lazydb:json/new1", "lazydb:json/new2", "testdb:json/secret"}
var dQueries = []string{"query testdb:", "query testdb:json/", "query testdb:json/ where S sameas alpha", "query testdb:raw", "query nodb:", "query testdb: where (", "nonsense", "query testdb:json/ where N exists", "", "query lazydb:"}
var dBodies = []string{`J{"N":"w1","S":"alpha"}`, `J{"N":"w2","S":"beta","X":{"y":[1,2,3]}}`, `J{}`, `J[1,2]`, `J"str"`, `Jnot json`, `J`, ``, `C` + "\xa1aNbw3", `{"S":"inserted"}`, `{"S":{"deep":1}}`, `[]`, `{"":1}`, `5`, `J{"N":"w|4","S":"al|pha|"}`, `J{"N":"|","S":"alpha"}`, `Shello`, "\x01raw bytes", `Mxyz`, `Ya: 1`}
var dGaps = []time.Duration{0, time.Millisecond, 5 * time.Millisecond, 50 * time.Millisecond}

func genC13(rng *rand.Rand, tier string) *DBPlan {
	p := &DBPlan{Backend: []string{"hashmap", "bbolt"}[rng.IntN(2)], Veto: rng.IntN(3) == 0, Shadow: rng.IntN(2) == 0}
	defer func() {
		p.WS = rng.IntN(3) == 0
		switch os.Getenv("VERIF_C13_WS") { // exploration aid
		case "0":
			p.WS = false
		case "1":
			p.WS = true
		}
	}()
	nc := 1 + rng.IntN(3)
	kinds := []string{"get", "get", "query", "sub", "qsub", "create", "update", "insert", "delete", "cancel", "raw"}
	for c := 0; c < nc; c++ {
		var msgs []DMsg
		n := 1 + rng.IntN(10)
		for i := 0; i < n; i++ {
			m := DMsg{Kind: kinds[rng.IntN(len(kinds))], Key: rng.IntN(len(dKeys)), Query: rng.IntN(len(dQueries)), Body: rng.IntN(len(dBodies)), Gap: rng.IntN(len(dGaps))}
			switch m.Kind {
			case "cancel":
				m.Ref = rng.IntN(i+1) - 1
				// prefer an earlier subscription as target
				for j := i - 1; j >= 0; j-- {
					if (msgs[j].Kind == "sub" || msgs[j].Kind == "qsub") && rng.IntN(3) != 0 {
						m.Ref = j
						break
					}
				}
				m.Twice = rng.IntN(3) == 0
			case "raw":
				raws := []string{"", "|", "||", "x|", "x|get", "x|get|", "x|unknown|y", "a|b|c|d|e", "\x00\xff|get|\x00", "x|create|k", "x|insert|", strings.Repeat("|", 40), "x|cancel", "|cancel", "x|qsub|query testdb: where", "x|update|testdb:json/a|", "y|sub", "z|delete", "y|cancelled"}
				m.Raw = raws[rng.IntN(len(raws))]
			}
			msgs = append(msgs, m)
		}
		p.Conns = append(p.Conns, msgs)
	}
	if rng.IntN(5) == 0 {
		// read-back scenario: one connection creates a record and reads it, another one changes it, the first reads
		// again well after that (whatever the first connection remembers must not be served in place of the change)
		k := 5 + rng.IntN(2)
		b0, b1 := rng.IntN(2), rng.IntN(2)
		first := []DMsg{{Kind: "create", Key: k, Body: b0}, {Kind: "get", Key: k, Gap: 1}, {Kind: "get", Key: k, Gap: 3}, {Kind: "get", Key: k, Gap: 3}}
		second := []DMsg{{Kind: []string{"update", "create"}[rng.IntN(2)], Key: k, Body: b1, Gap: 2}}
		if rng.IntN(3) == 0 {
			second = append(second, DMsg{Kind: "delete", Key: k, Gap: 3}, DMsg{Kind: "create", Key: k, Body: b0, Gap: 2})
			first = append(first, DMsg{Kind: "get", Key: k, Gap: 3})
		}
		p.Conns = [][]DMsg{first, second}
	}
	switch rng.IntN(40) {
	case 0, 1, 2, 3, 4:
		// queries cancelled at once, again and again: a cancel meets a query that is just finishing
		var msgs []DMsg
		for i, n := 0, 3+rng.IntN(5); i < n; i++ {
			msgs = append(msgs, DMsg{Kind: "query", Query: []int{0, 1, 3, 7}[rng.IntN(4)], Gap: rng.IntN(2)})
			msgs = append(msgs, DMsg{Kind: "cancel", Ref: len(msgs) - 1, Twice: rng.IntN(4) == 0})
		}
		p.Conns = append([][]DMsg{msgs}, p.Conns...)
		if len(p.Conns) > 3 {
			p.Conns = p.Conns[:3]
		}
	case 7, 8, 9:
		// slow client: more records than a result stream buffers, and a client that stops reading in the middle
		p.SlowQuery = 12 + rng.IntN(8)
		p.Conns = [][]DMsg{{{Kind: []string{"query", "qsub"}[rng.IntN(2)], Query: 1}}}
		if rng.IntN(2) == 0 {
			p.Conns = append(p.Conns, []DMsg{{Kind: "get", Key: 0, Gap: 2}})
		}
		p.Writes = nil
		return p
	case 10:
		// a subscriber that stalls for a moment behind a couple of hundred writes, then reads on
		p.Stall = 150 + rng.IntN(100)
		p.Conns = [][]DMsg{{{Kind: "sub", Query: 1}}, {{Kind: "get", Key: 5, Gap: 3}}}
		p.Writes = nil
		return p
	case 15, 16, 17:
		// first use of a database by several connections at the same moment: one writes and reads back, the others
		// subscribe, read or write as well
		k := 10 + rng.IntN(2)
		b0 := rng.IntN(2)
		p.Conns = [][]DMsg{{{Kind: "create", Key: k, Body: b0}, {Kind: "get", Key: k, Gap: 2}, {Kind: "get", Key: k, Gap: 3}}}
		for c, nc := 0, 1+rng.IntN(2); c < nc; c++ {
			switch rng.IntN(3) {
			case 0:
				p.Conns = append(p.Conns, []DMsg{{Kind: "qsub", Query: 9}, {Kind: "get", Key: k, Gap: 3}})
			case 1:
				p.Conns = append(p.Conns, []DMsg{{Kind: "get", Key: 10 + rng.IntN(2)}, {Kind: "get", Key: k, Gap: 3}})
			default:
				p.Conns = append(p.Conns, []DMsg{{Kind: "create", Key: 21 - k, Body: rng.IntN(2)}, {Kind: "get", Key: 21 - k, Gap: 2}, {Kind: "get", Key: k, Gap: 3}})
			}
		}
		p.Writes = nil
		p.Veto = false
		return p
	case 11, 12, 13, 14:
		// a qsub (sometimes a sub) that starts at the same moment as a burst of writes and deletes to matching keys:
		// every change that is not part of the query replies must be notified
		first := []DMsg{{Kind: "qsub", Query: []int{0, 1, 2, 7}[rng.IntN(4)]}}
		if rng.IntN(4) == 0 {
			first[0].Kind = "sub"
		}
		if rng.IntN(3) == 0 {
			first = append(first, DMsg{Kind: "get", Key: rng.IntN(3), Gap: rng.IntN(2)})
		}
		p.Conns = [][]DMsg{first}
		if rng.IntN(3) == 0 {
			p.Conns = append(p.Conns, []DMsg{{Kind: []string{"update", "create", "delete"}[rng.IntN(3)], Key: rng.IntN(3), Body: rng.IntN(2)}})
		}
		p.Writes = nil
		for i, n := 0, 2+rng.IntN(6); i < n; i++ {
			p.Writes = append(p.Writes, DWrite{Key: rng.IntN(3), Delete: rng.IntN(5) == 0, Gap: rng.IntN(2) * rng.IntN(2)})
		}
		return p
	case 5, 6:
		// flood: a subscriber whose client has stopped reading, and more writes than its feed holds
		p.Stall = 1005 + rng.IntN(20)
		p.Conns = [][]DMsg{{{Kind: "sub", Query: 1}}, {{Kind: "get", Key: 5, Gap: 3}}}
		p.Writes = nil
		return p
	}
	nw := rng.IntN(10)
	for i := 0; i < nw; i++ {
		p.Writes = append(p.Writes, DWrite{Key: rng.IntN(4), Delete: rng.IntN(4) == 0, Gap: rng.IntN(len(dGaps))})
	}
	return p
}

type reply struct {
	Seq  uint64
	Op   string
	Type string
	Key  string
	Data string
}

type reqRec struct {
	Op          string
	Kind        string
	Key         string
	Body        string
	Seq         uint64
	CancelledAt uint64
	Cancels     int
}

type connState struct {
	ws      *websocket.Conn // with DBPlan.WS
	api     *api.DatabaseAPI
	replies []reply
	reqs    map[string]*reqRec
	order   []string
}

// handle sends one message to the database API of the connection.
func (cs *connState) handle(msg []byte) {
	if cs.ws != nil {
		_ = cs.ws.WriteMessage(websocket.TextMessage, msg)
		return
	}
	cs.api.Handle(msg)
}

type bgWrite struct {
	Key      string
	Inv, Ret uint64
	OK       bool
	Del      bool
}

type c13State struct {
	conns      []*connState
	dir        string
	writes     []bgWrite
	lateWrites []bgWrite
}

var c13Run int

func execC13(p *DBPlan, rc *simkit.RunCtx) {
	s := &c13State{}
	rc.Data = s
	c13Run++
	s.dir = fmt.Sprintf("apidb-%d/r%d", os.Getpid(), c13Run)
	_ = os.RemoveAll(s.dir)
	_ = os.MkdirAll(s.dir, 0o755)
	defer func() {
		_ = database.Shutdown()
		_ = os.RemoveAll(s.dir)
	}()
	if err := database.InitializeWithPath(s.dir); err != nil {
		rc.Fail("C13.harness", "database init failed", err.Error())
		return
	}
	if _, err := database.Register(&database.Database{Name: "testdb", Description: "sim", StorageType: p.Backend, ShadowDelete: p.Shadow}); err != nil {
		rc.Fail("C13.harness", "register failed", err.Error())
		return
	}
	// a second database that nothing touches before the connections do: its first use may come from several
	// requests at once
	if _, err := database.Register(&database.Database{Name: "lazydb", Description: "sim, opened on first use", StorageType: p.Backend}); err != nil {
		rc.Fail("C13.harness", "register failed", err.Error())
		return
	}
	priv := database.NewInterface(&database.Options{Local: true, Internal: true})
	put := func(key string, r record.Record) {
		if err := priv.Put(r); err != nil {
			rc.Fail("C13.harness", "seed put failed", err.Error())
		}
	}
	wj := func(key, n, sv string) record.Record {
		data, _ := json.Marshal(map[string]any{"N": n, "S": sv})
		w, _ := record.NewWrapper(key, &record.Meta{}, dsd.JSON, data)
		return w
	}
	put(dKeys[0], wj(dKeys[0], "seed-a", "alpha"))
	put(dKeys[1], wj(dKeys[1], "seed-b", "beta"))
	sr := &Rec{N: "seed-c", S: "alpha"}
	sr.SetKey(dKeys[2])
	sr.CreateMeta()
	put(dKeys[2], sr)
	rw, _ := record.NewWrapper(dKeys[3], &record.Meta{}, dsd.RAW, []byte("raw bytes"))
	put(dKeys[3], rw)
	// a record the API may not see (it is neither local nor internal)
	if err := database.NewInterface(&database.Options{Local: true, Internal: true, AlwaysMakeSecret: true}).Put(wj(dKeys[12], "seed-secret", "alpha")); err != nil {
		rc.Fail("C13.harness", "seed put failed", err.Error())
	}
	for i := 0; i < p.SlowQuery; i++ {
		k := fmt.Sprintf("testdb:json/bulk%02d", i)
		put(k, wj(k, fmt.Sprintf("bulk-%d", i), "alpha"))
	}
	if rc.Failed() {
		return
	}
	if p.Veto {
		if _, err := database.RegisterHook(query.New(dKeys[1]), &vetoHook{}); err != nil {
			rc.Fail("C13.harness", "RegisterHook failed", err.Error())
			return
		}
	}
	var wg sync.WaitGroup
	slowDone := false
	var stallGate chan struct{}
	if p.Stall > 0 {
		stallGate = make(chan struct{})
		rc.Probe("stalled-subscriber-flood")
	}
	for ci, msgs := range p.Conns {
		cs := &connState{reqs: map[string]*reqRec{}}
		ci := ci
		onReply := func(data []byte) {
			if p.SlowQuery > 0 && ci == 0 && !slowDone && strings.Contains(string(data), "|ok|") {
				slowDone = true
				// while the client does not read, the records of the result are rewritten with larger content (what
				// the query hands out later is what was stored under each key at some point, never anything else)
				go func() {
					time.Sleep(time.Second)
					big := strings.Repeat("x", 3000)
					for i := 0; i < p.SlowQuery; i++ {
						k := fmt.Sprintf("testdb:json/bulk%02d", i)
						_ = priv.Put(wj(k, fmt.Sprintf("mid-%d", i), "alpha"+big))
					}
				}()
				time.Sleep(3 * time.Second) // the client does not read for a while
			}
			if p.Stall > 0 && ci == 0 && stallGate != nil {
				// the client of this connection has stopped reading: sending blocks until the end of the run
				if strings.Contains(string(data), "|upd|") || strings.Contains(string(data), "|new|") {
					<-stallGate
				}
			}
			parts := strings.SplitN(string(data), "|", 4)
			r := reply{Seq: simrt.Seq()}
			if len(parts) > 0 {
				r.Op = parts[0]
			}
			if len(parts) > 1 {
				r.Type = parts[1]
			}
			if len(parts) > 2 {
				r.Key = parts[2]
			}
			if len(parts) > 3 {
				r.Data = parts[3]
			}
			cs.replies = append(cs.replies, r)
		}
		if p.WS {
			ws, err := dialWebsocket(4)
			if err != nil {
				rc.Fail("C13.harness", "websocket handshake with the database API failed", err.Error())
				return
			}
			cs.ws = ws
			go func() {
				// the client: reads what the server sends (and stops reading where the scenario says so)
				for {
					_, data, err := ws.ReadMessage()
					if err != nil {
						return
					}
					onReply(data)
				}
			}()
			rc.Probe("websocket-connection")
		} else {
			a := api.CreateDatabaseAPI(onReply)
			cs.api = &a
		}
		s.conns = append(s.conns, cs)
		ci, msgs := ci, msgs
		wg.Add(1)
		go func() {
			defer wg.Done()
			for mi, m := range msgs {
				if d := dGaps[m.Gap]; d > 0 {
					time.Sleep(d)
				}
				op := fmt.Sprintf("c%dm%d", ci, mi)
				var msg string
				rr := &reqRec{Op: op, Kind: m.Kind, Key: dKeys[m.Key], Seq: simrt.Seq()}
				switch m.Kind {
				case "get", "delete":
					msg = op + "|" + m.Kind + "|" + dKeys[m.Key]
				case "query", "sub", "qsub":
					msg = op + "|" + m.Kind + "|" + dQueries[m.Query]
					rr.Key = dQueries[m.Query]
				case "create", "update", "insert":
					msg = op + "|" + m.Kind + "|" + dKeys[m.Key] + "|" + dBodies[m.Body]
					rr.Body = dBodies[m.Body]
				case "cancel":
					target := "unknown-op"
					if m.Ref >= 0 && m.Ref < mi {
						target = fmt.Sprintf("c%dm%d", ci, m.Ref)
						if t := cs.reqs[target]; t != nil {
							if t.CancelledAt == 0 {
								t.CancelledAt = simrt.Seq()
							}
							t.Cancels++
						}
					}
					msg = target + "|cancel"
					rr.Kind = "cancel"
					rr.Key = target
				case "raw":
					msg = m.Raw
				}
				cs.reqs[op] = rr
				cs.order = append(cs.order, op)
				cs.handle([]byte(msg))
				if m.Kind == "cancel" && m.Twice {
					if t := cs.reqs[rr.Key]; t != nil {
						t.Cancels++
					}
					cs.handle([]byte(msg))
				}
			}
		}()
	}
	wg.Add(1)
	go func() {
		defer wg.Done()
		for i, w := range p.Writes {
			if d := dGaps[w.Gap]; d > 0 {
				time.Sleep(d)
			}
			if w.Delete {
				bw := bgWrite{Key: dKeys[w.Key], Inv: simrt.Seq(), Del: true}
				bw.OK = priv.Delete(dKeys[w.Key]) == nil
				bw.Ret = simrt.Seq()
				s.writes = append(s.writes, bw)
			} else if w.Key != 3 {
				bw := bgWrite{Key: dKeys[w.Key], Inv: simrt.Seq()}
				bw.OK = priv.Put(wj(dKeys[w.Key], fmt.Sprintf("bg%d", i), "alpha")) == nil
				bw.Ret = simrt.Seq()
				s.writes = append(s.writes, bw)
			}
		}
	}()
	if p.Stall > 0 {
		// the flood: writes through a third connection, every one of which must be answered
		cs := &connState{reqs: map[string]*reqRec{}}
		a := api.CreateDatabaseAPI(func(data []byte) {
			parts := strings.SplitN(string(data), "|", 4)
			r := reply{Seq: simrt.Seq()}
			if len(parts) > 0 {
				r.Op = parts[0]
			}
			if len(parts) > 1 {
				r.Type = parts[1]
			}
			cs.replies = append(cs.replies, r)
		})
		cs.api = &a
		s.conns = append(s.conns, cs)
		wg.Add(1)
		go func() {
			defer wg.Done()
			time.Sleep(5 * time.Millisecond)
			for i := 0; i < p.Stall; i++ {
				op := fmt.Sprintf("f%d", i)
				cs.reqs[op] = &reqRec{Op: op, Kind: "update", Key: dKeys[0], Body: dBodies[0], Seq: simrt.Seq()}
				cs.order = append(cs.order, op)
				cs.api.Handle([]byte(op + "|update|" + dKeys[0] + "|" + dBodies[0]))
				// a well-behaved client: the next write after the answer to this one (or after giving up on it)
				for w := 0; w < 300 && len(cs.replies) <= i; w++ {
					time.Sleep(time.Millisecond)
				}
				if len(cs.replies) <= i {
					break // not answered: the check reports it
				}
			}
		}()
	}
	wg.Wait()
	simrt.AwaitQuiescence(3 * time.Second)
	if p.SlowQuery > 0 {
		// later changes: a request that has ended (done, or error) gets no further notifications
		simrt.AwaitQuiescence(5 * time.Second)
		for i := 0; i < 2; i++ {
			k := fmt.Sprintf("testdb:json/bulk%02d", i)
			bw := bgWrite{Key: k, Inv: simrt.Seq()}
			bw.OK = priv.Put(wj(k, fmt.Sprintf("late-%d", i), "alpha")) == nil
			bw.Ret = simrt.Seq()
			s.lateWrites = append(s.lateWrites, bw)
		}
		simrt.AwaitQuiescence(3 * time.Second)
		rc.Probe("slow-client-query")
	}
	if stallGate != nil {
		// while the stalled client still is not reading: every write of the flood has been answered
		fc := s.conns[len(s.conns)-1]
		if len(fc.replies) < len(fc.order) {
			rc.Fail("C13.stall", "writes were not answered while the client of another, subscribed connection had stopped reading", fmt.Sprintf("%d of %d writes answered", len(fc.replies), len(fc.order)))
		}
		close(stallGate)
		stallGate = nil
		simrt.AwaitQuiescence(3 * time.Second)
		if p.Stall <= 300 && !rc.Failed() {
			// a couple of hundred changes behind: the subscriber that reads on is told about every one of them
			n := 0
			for _, r := range s.conns[0].replies {
				if r.Type == "upd" || r.Type == "new" {
					n++
				}
			}
			if n < len(fc.replies) {
				rc.Fail("C13.notification-lost", "a subscriber that fell a couple of hundred changes behind and then read on was not notified of all of them", fmt.Sprintf("%d writes answered, %d notifications", len(fc.replies), n))
			}
			rc.Probe("moderate-stall-completeness")
		}
	}
	// cancel everything that is still subscribed so that the handlers end
	for ci, cs := range s.conns {
		for _, op := range cs.order {
			r := cs.reqs[op]
			if (r.Kind == "sub" || r.Kind == "qsub") && r.CancelledAt == 0 {
				r.CancelledAt = simrt.Seq()
				cs.handle([]byte(op + "|cancel"))
			}
		}
		_ = ci
	}
	simrt.AwaitQuiescence(3 * time.Second)
	for _, cs := range s.conns {
		if cs.ws != nil {
			_ = cs.ws.Close()
		}
	}
	if p.WS {
		simrt.AwaitQuiescence(3 * time.Second)
	}
}

func checkC13(p *DBPlan, rc *simkit.RunCtx) {
	s, _ := rc.Data.(*c13State)
	if s == nil {
		return
	}
	if rc.Stats.Stalled {
		note := ""
		if strings.Contains(rc.Stats.StallInfo, "database/storage/hashmap/map.go") && strings.Contains(rc.Stats.StallInfo, "lock-iface") {
			note = " (hashmap: a query holds the map lock while waiting for the lock of a record that a concurrent put holds while waiting for the map lock)"
		}
		rc.Fail("C13.stall", "the database API wedged"+note, rc.Stats.StallInfo)
		return
	}
	if rc.Stats.StepCap {
		rc.Inconcl = "step-cap"
		return
	}
	for ci, cs := range s.conns {
		rc.H("conn %d: %d requests %d replies", ci, len(cs.order), len(cs.replies))
		byOp := map[string][]reply{}
		for _, r := range cs.replies {
			if r.Op == "" {
				if r.Type != "error" {
					rc.Fail("C13.foreign-reply", "a reply without operation ID is not a malformed-message error", fmt.Sprintf("conn %d: %+v", ci, r))
					return
				}
				continue
			}
			if cs.reqs[r.Op] == nil && !isCancelTarget(cs, r.Op) {
				// replies to raw messages carry whatever ID the raw message had
				if !rawID(cs, p.Conns[ci], r.Op) {
					rc.Fail("C13.foreign-reply", "a reply carries an operation ID that no request of this connection used", fmt.Sprintf("conn %d: %+v", ci, r))
					return
				}
				continue
			}
			byOp[r.Op] = append(byOp[r.Op], r)
		}
		// a malformed message yields an error reply: for every ID that certainly malformed raw messages carried, at
		// least as many error replies as there were such messages (other raw messages with that ID only add to them)
		if ci < len(p.Conns) {
			// (the error reply carries the message's ID where the package made one out, and no ID otherwise)
			ids, want, got := map[string]bool{"": true}, 0, 0
			for _, m := range p.Conns[ci] {
				if m.Kind == "raw" && certainlyMalformed[m.Raw] {
					id, _, _ := strings.Cut(m.Raw, "|")
					ids[id] = true
					want++
				}
			}
			for _, r := range cs.replies {
				if r.Type == "error" && ids[r.Op] {
					got++
				}
			}
			if got < want {
				rc.Fail("C13.reply-sequence", "replies to a malformed message do not follow the protocol: expected an error reply", fmt.Sprintf("conn %d: %d malformed messages, %d error replies with their IDs or without ID", ci, want, got))
				return
			}
			if want > 0 {
				rc.Probe("malformed-message-answered")
			}
		}
		if p.SlowQuery > 0 {
			// every record a query hands out for one of the bulk keys is one that was stored under that key
			for _, r := range cs.replies {
				if r.Type != "ok" || !strings.HasPrefix(r.Key, "testdb:json/bulk") {
					continue
				}
				var got map[string]any
				idx := strings.TrimLeft(strings.TrimPrefix(r.Key, "testdb:json/bulk"), "0")
				if idx == "" {
					idx = "0"
				}
				n := ""
				if json.Unmarshal([]byte(strings.TrimPrefix(r.Data, "J")), &got) == nil {
					n, _ = got["N"].(string)
				}
				if n != "bulk-"+idx && n != "mid-"+idx && n != "late-"+idx {
					rc.Fail("C13.read-back", "a record handed out by a query does not have the content that was stored under its key", fmt.Sprintf("%s: N=%q (%d bytes)", r.Key, n, len(r.Data)))
					return
				}
				rc.Probe("query-content-checked")
			}
		}
		for _, op := range cs.order {
			req := cs.reqs[op]
			reps := byOp[op]
			var types []string
			for _, r := range reps {
				if r.Type == "warning" {
					continue
				}
				types = append(types, r.Type)
			}
			seq := strings.Join(types, " ")
			bad := func(why string) {
				// replies missing at the end (none at all, or ok records without the closing done)
				missingEnd := len(types) == 0
				if (req.Kind == "query" || req.Kind == "qsub") && len(types) > 0 {
					missingEnd = true
					for _, t := range types {
						if t != "ok" {
							missingEnd = false
						}
					}
				}
				if missingEnd && strings.Contains(rc.Stats.WaitersAtEnd, "database/storage/hashmap/map.go") && strings.Contains(rc.Stats.WaitersAtEnd, "lock-iface") {
					rc.Fail("C13.stall", "the database API wedged (hashmap: a query holds the map lock while waiting for the lock of a record that a concurrent put holds while waiting for the map lock)", rc.Stats.WaitersAtEnd)
					return
				}
				rc.Fail("C13.reply-sequence", "replies to a "+req.Kind+" request do not follow the protocol: "+why, fmt.Sprintf("conn %d op %s (%s %q %q): replies [%s]", ci, op, req.Kind, req.Key, req.Body, seq))
			}
			cancelled := req.CancelledAt != 0
			if cancelled && (req.Kind == "get" || req.Kind == "create" || req.Kind == "update" || req.Kind == "insert" || req.Kind == "delete" || req.Kind == "query") {
				// a cancel aimed at an operation that is not a subscription is answered with one
				// additional error ("could not find subscription") under the same ID
				for k := 0; k < req.Cancels; k++ {
					for i := len(types) - 1; i >= 0; i-- {
						if types[i] == "error" && len(types) > 1 {
							types = append(types[:i], types[i+1:]...)
							break
						}
					}
				}
			}
			switch req.Kind {
			case "get":
				if len(types) != 1 || (types[0] != "ok" && types[0] != "error") {
					bad("expected exactly one ok or error")
					return
				}
			case "create", "update", "insert", "delete":
				if len(types) != 1 || (types[0] != "success" && types[0] != "error") {
					bad("expected exactly one success or error")
					return
				}
			case "query":
				if cancelled {
					break
				}
				n := len(types)
				if n == 0 || (types[n-1] != "done" && types[n-1] != "error") {
					bad("expected ok* followed by one done or error")
					return
				}
				for _, t := range types[:n-1] {
					if t != "ok" {
						bad("expected ok* followed by one done or error")
						return
					}
				}
			case "sub":
				// notifications until cancelled, then done; an immediate error for an unparsable query
				for i, t := range types {
					last := i == len(types)-1
					switch t {
					case "upd", "new", "del":
					case "done":
						if !last && !cancelled {
							bad("done before the end")
							return
						}
					case "error":
					default:
						bad("unexpected reply type " + t)
						return
					}
				}
				if len(types) == 0 || (types[len(types)-1] != "done" && types[len(types)-1] != "error" && !hasType(types, "done") && !hasType(types, "error")) {
					bad("subscription never ended with done after it was cancelled")
					return
				}
			case "qsub":
				for _, t := range types {
					switch t {
					case "ok", "upd", "new", "del", "done", "error":
					default:
						bad("unexpected reply type " + t)
						return
					}
				}
				// an error (before any cancel) ends the request: no records or notifications after it
				for i, r := range reps {
					if r.Type != "error" || (req.CancelledAt != 0 && r.Seq > req.CancelledAt) {
						continue
					}
					for _, r2 := range reps[i+1:] {
						if r2.Type == "ok" || r2.Type == "upd" || r2.Type == "new" || r2.Type == "del" {
							bad("records or notifications after the error that ended the request")
							return
						}
					}
					break
				}
				if !hasType(types, "done") && !hasType(types, "error") {
					bad("never ended")
					return
				}
			}
			if req.Kind == "qsub" && strings.HasPrefix(req.Key, "query testdb:") && !strings.Contains(req.Key, "where") && !strings.Contains(req.Key, "(") {
				// every matching write that began after the query part was reported done and returned before the
				// cancel must be notified
				// (the first reply shows that the handler is past registering the subscription)
				var doneSeq uint64
				if len(reps) > 0 {
					doneSeq = reps[0].Seq
				}
				prefix := strings.TrimPrefix(req.Key, "query ")
				if doneSeq != 0 {
					for _, w := range s.writes {
						if !w.OK || !strings.HasPrefix(w.Key, prefix) || w.Inv < doneSeq || (req.CancelledAt != 0 && w.Ret > req.CancelledAt) {
							continue
						}
						n := 0
						for _, r := range reps {
							// (hashmap hands out the stored object: a put that is read from the feed after a later
							// delete is announced as del, so any notification for the key counts)
							if (r.Type == "upd" || r.Type == "new" || r.Type == "del" || r.Type == "ok") && r.Key == w.Key && r.Seq > w.Inv && !w.Del {
								n++
							}
							// a delete is announced as del (the deleted object stays deleted: a later put stores a new one)
							if w.Del && r.Type == "del" && r.Key == w.Key && r.Seq > w.Inv {
								n++
							}
						}
						if n == 0 && w.Del {
							rc.Fail("C13.notification-lost", "a matching delete made while a qsub was active was not notified as del", fmt.Sprintf("conn %d op %s (%q): delete of %s", ci, op, req.Key, w.Key))
							return
						}
						if n == 0 {
							rc.Fail("C13.notification-lost", "a matching change made while a qsub was active was neither part of the query replies nor notified", fmt.Sprintf("conn %d op %s (%q): write to %s", ci, op, req.Key, w.Key))
							return
						}
						rc.Probe("qsub-notification-checked")
					}
				}
			}
			rc.Probe("request-" + req.Kind)
		}
		// write -> read back: a get that follows a successful create/update of the same key on the same
		// connection (without other writers touching the key) returns the written JSON plus _meta
		checkReadBack(ci, cs, p, rc)
		if rc.Failed() {
			return
		}
	}
}

func hasType(ts []string, t string) bool {
	for _, x := range ts {
		if x == t {
			return true
		}
	}
	return false
}

func isCancelTarget(cs *connState, op string) bool {
	for _, r := range cs.reqs {
		if r.Kind == "cancel" && r.Key == op {
			return true
		}
	}
	return false
}

// certainlyMalformed: raw messages that are no request of the protocol whatever the state of the database
var certainlyMalformed = map[string]bool{"": true, "|": true, "||": true, "x|": true, "x|get": true, "x|unknown|y": true, "a|b|c|d|e": true,
	"x|create|k": true, "x|insert|": true, strings.Repeat("|", 40): true, "y|sub": true, "z|delete": true, "y|cancelled": true}

func rawID(cs *connState, msgs []DMsg, op string) bool {
	for _, m := range msgs {
		if m.Kind == "raw" && strings.HasPrefix(m.Raw, op+"|") {
			return true
		}
	}
	return false
}

func checkReadBack(ci int, cs *connState, p *DBPlan, rc *simkit.RunCtx) {
	s, _ := rc.Data.(*c13State)
	if s == nil {
		return
	}
	type wr struct {
		req           *reqRec
		sent, replied uint64 // replied: sequence number of the success/error reply (0: none)
	}
	// every write request to the keys only the API writes, on any connection
	var writesTo = map[string][]wr{}
	for _, c := range s.conns {
		for _, op := range c.order {
			o := c.reqs[op]
			if !(o.Kind == "create" || o.Kind == "update" || o.Kind == "insert" || o.Kind == "delete") {
				continue
			}
			w := wr{req: o, sent: o.Seq}
			for _, r := range c.replies {
				if r.Op == op && (r.Type == "success" || r.Type == "error") {
					w.replied = r.Seq
				}
			}
			writesTo[o.Key] = append(writesTo[o.Key], w)
		}
	}
	for _, op := range cs.order {
		w := cs.reqs[op]
		if w.Kind != "create" && w.Kind != "update" {
			continue
		}
		if !(strings.HasPrefix(w.Key, "testdb:json/new") || strings.HasPrefix(w.Key, "lazydb:json/new")) || !strings.HasPrefix(w.Body, "J{") {
			continue
		}
		// success?
		var wSeq uint64
		for _, r := range cs.replies {
			if r.Op == op && r.Type == "success" {
				wSeq = r.Seq
			}
		}
		if wSeq == 0 {
			continue
		}
		// every get of that key, on any connection, that was sent after the success was reported and that no other
		// write to the key can have preceded (requests are handled concurrently, also those of one connection)
		for cj, c2 := range s.conns {
			for _, op2 := range c2.order {
				g := c2.reqs[op2]
				if g.Kind != "get" || g.Key != w.Key || g.Seq < wSeq {
					continue
				}
				var gReply uint64
				var gRep *reply
				for k := range c2.replies {
					if r := &c2.replies[k]; r.Op == op2 && gReply == 0 {
						gReply, gRep = r.Seq, r
					}
				}
				if g.Cancels > 0 {
					// a cancel aimed at the get is answered with an error under the get's ID: only an ok reply can
					// be attributed to the get itself
					gRep = nil
					for k := range c2.replies {
						if r := &c2.replies[k]; r.Op == op2 && r.Type == "ok" {
							gReply, gRep = r.Seq, r
						}
					}
				}
				if gRep == nil {
					continue
				}
				ambiguous := false
				for _, o := range writesTo[w.Key] {
					if o.req == w {
						continue
					}
					if o.sent < gReply && (o.replied == 0 || o.replied > w.Seq) {
						ambiguous = true
					}
				}
				if ambiguous {
					continue
				}
				where := "the same connection"
				if cj != ci {
					where = "another connection"
				}
				if gRep.Type != "ok" {
					rc.Fail("C13.read-back", "a record written through the API is not found by a later get ("+where+")", fmt.Sprintf("wrote %s to %s, get replied %s %s", w.Body, w.Key, gRep.Type, gRep.Data))
					return
				}
				var got, want map[string]any
				if err := json.Unmarshal([]byte(strings.TrimPrefix(gRep.Data, "J")), &got); err != nil {
					rc.Fail("C13.read-back", "a record written through the API is not returned as JSON", gRep.Data)
					return
				}
				_ = json.Unmarshal([]byte(strings.TrimPrefix(w.Body, "J")), &want)
				if _, has := got["_meta"]; !has {
					rc.Fail("C13.read-back", "a record read through the API lacks the metadata section", gRep.Data)
					return
				}
				delete(got, "_meta")
				if !reflect.DeepEqual(got, want) {
					rc.Fail("C13.read-back", "a record written through the API is read back with changed content ("+where+")", fmt.Sprintf("wrote %s, read %s", w.Body, gRep.Data))
					return
				}
				rc.Probe("read-back-checked")
				if cj != ci {
					rc.Probe("read-back-checked-across-connections")
				}
			}
		}
	}
}

func shrinkC13(p *DBPlan) []any {
	var out []any
	clone := func() *DBPlan {
		q := *p
		q.Conns = nil
		for _, c := range p.Conns {
			q.Conns = append(q.Conns, append([]DMsg(nil), c...))
		}
		q.Writes = append([]DWrite(nil), p.Writes...)
		return &q
	}
	if len(p.Conns) > 1 {
		for i := range p.Conns {
			q := clone()
			q.Conns = append(q.Conns[:i], q.Conns[i+1:]...)
			out = append(out, q)
		}
	}
	if len(p.Writes) > 0 {
		q := clone()
		q.Writes = nil
		out = append(out, q)
	}
	for ci, c := range p.Conns {
		for mi := range c {
			if len(c) > 1 {
				q := clone()
				q.Conns[ci] = append(q.Conns[ci][:mi], q.Conns[ci][mi+1:]...)
				// cancel references shift
				for k := range q.Conns[ci] {
					if q.Conns[ci][k].Kind == "cancel" && q.Conns[ci][k].Ref >= mi {
						q.Conns[ci][k].Ref--
					}
				}
				out = append(out, q)
			}
		}
	}
	if p.Backend != "hashmap" {
		q := clone()
		q.Backend = "hashmap"
		out = append(out, q)
	}
	return out
}
