package apisim

import (
	"bufio"
	"errors"
	"net"
	"net/http"
	"net/url"
	"time"

	"github.com/gorilla/websocket"

	"github.com/safing/portbase/api"
)

// simConn is one end of an in-memory connection whose blocking goes through channels of this (instrumented) package,
// so that the scheduler of the simulation decides about it. A write hands one chunk to the peer; the link buffers a
// few chunks like socket buffers do.
type simConn struct {
	rd     chan []byte
	wr     chan []byte
	rest   []byte
	closed chan struct{}
	peer   *simConn
}

func newSimPipe(buffer int) (*simConn, *simConn) {
	ab, ba := make(chan []byte, buffer), make(chan []byte, buffer)
	a := &simConn{rd: ba, wr: ab, closed: make(chan struct{})}
	b := &simConn{rd: ab, wr: ba, closed: make(chan struct{})}
	a.peer, b.peer = b, a
	return a, b
}

var errConnClosed = errors.New("simulated connection closed")

func (c *simConn) Read(p []byte) (int, error) {
	if len(c.rest) == 0 {
		select {
		case b := <-c.rd:
			c.rest = b
		case <-c.closed:
			return 0, errConnClosed
		case <-c.peer.closed:
			// what the peer had sent before it closed is still delivered
			select {
			case b := <-c.rd:
				c.rest = b
			default:
				return 0, errConnClosed
			}
		}
	}
	n := copy(p, c.rest)
	c.rest = c.rest[n:]
	return n, nil
}

func (c *simConn) Write(p []byte) (int, error) {
	b := append([]byte(nil), p...)
	select {
	case c.wr <- b:
		return len(p), nil
	case <-c.closed:
		return 0, errConnClosed
	case <-c.peer.closed:
		return 0, errConnClosed
	}
}

func (c *simConn) Close() error {
	select {
	case <-c.closed:
	default:
		close(c.closed)
	}
	return nil
}

type simAddr string

func (a simAddr) Network() string { return "sim" }
func (a simAddr) String() string  { return string(a) }

func (c *simConn) LocalAddr() net.Addr                { return simAddr("sim-local") }
func (c *simConn) RemoteAddr() net.Addr               { return simAddr("sim-remote") }
func (c *simConn) SetDeadline(t time.Time) error      { return nil }
func (c *simConn) SetReadDeadline(t time.Time) error  { return nil }
func (c *simConn) SetWriteDeadline(t time.Time) error { return nil }

// hijackWriter is the ResponseWriter the websocket upgrade needs.
type hijackWriter struct {
	conn net.Conn
	brw  *bufio.ReadWriter
	hdr  http.Header
	code int
}

func (w *hijackWriter) Header() http.Header         { return w.hdr }
func (w *hijackWriter) Write(b []byte) (int, error) { return len(b), nil }
func (w *hijackWriter) WriteHeader(code int)        { w.code = code }
func (w *hijackWriter) Hijack() (net.Conn, *bufio.ReadWriter, error) {
	return w.conn, w.brw, nil
}

// dialWebsocket connects a client to the database websocket API of the package: the client's handshake request is read on
// the server end and handed to the handler behind /api/database/v1 together with a hijackable response writer.
func dialWebsocket(buffer int) (*websocket.Conn, error) {
	cEnd, sEnd := newSimPipe(buffer)
	srvErr := make(chan error, 1)
	go func() {
		br := bufio.NewReader(sEnd)
		req, err := http.ReadRequest(br)
		if err != nil {
			srvErr <- err
			return
		}
		req.RemoteAddr = "10.1.2.3:5555"
		w := &hijackWriter{conn: sEnd, brw: bufio.NewReadWriter(br, bufio.NewWriter(sEnd)), hdr: http.Header{}}
		api.VerifSimStartWebsocket(w, req)
		srvErr <- nil
	}()
	u, _ := url.Parse("ws://" + hosts[0] + "/api/database/v1")
	c, _, err := websocket.NewClient(cEnd, u, http.Header{}, 4096, 4096)
	if err != nil {
		return nil, err
	}
	if e := <-srvErr; e != nil {
		return nil, e
	}
	return c, nil
}
