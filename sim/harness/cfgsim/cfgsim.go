// Package cfgsim drives portbase/config inside the simulator (C04).
package cfgsim

import (
	"encoding/json"
	"fmt"
	"math"
	"math/rand/v2"
	"os"
	"reflect"
	"regexp"
	"strings"
	"time"

	"github.com/safing/portbase/config"
	"github.com/safing/portbase/log"
	"github.com/safing/portbase/verifsim/simkit"
	"github.com/safing/portbase/verifsim/simrt"
)

// H is the harness.
type H struct{}

// OptSpec describes one registered option.
type OptSpec struct {
	Type     int  `json:"type"` // 1 string, 2 string array, 3 int, 4 bool
	Regex    int  `json:"regex,omitempty"`
	Possible bool `json:"possible,omitempty"`
	ValFn    bool `json:"valfn,omitempty"`
	Release  int  `json:"release,omitempty"`
	Default  int  `json:"default"` // index into the valid defaults of the type
}

// Op is one setter-side operation.
type Op struct {
	Kind string `json:"k"` // set setdef replace replacedef saveload rel reldef
	Opt  int    `json:"opt,omitempty"`
	Val  int    `json:"val,omitempty"`  // index into valuePool
	Vals []int  `json:"vals,omitempty"` // replace: per option value index (-1 = absent)
	Rel  int    `json:"rel,omitempty"`  // 0 stable 1 beta 2 experimental 3 invalid 4 nil
	// NoSave (set, sequential mode): the configuration file cannot be written while this operation runs (its path is
	// a directory). Whether the value is in force afterwards is open; every getter and the user layer must agree.
	NoSave bool `json:"no_save,omitempty"`
}

// Plan is one configuration scenario.
type Plan struct {
	Opts    []OptSpec `json:"opts"`
	Ops     []Op      `json:"ops"`
	Readers int       `json:"readers"` // 0: sequential mode; >0: concurrent readers
	Reads   int       `json:"reads"`
	Tight   bool      `json:"tight,omitempty"` // concurrent mode without pauses
}

// valuePool: values of every Go and JSON-decoded kind used by set operations.
var valuePool = []any{
	"a", "b", "abc", "x1", "", "aaaa",
	[]string{"a"}, []string{"a", "b"}, []string{}, []string{"zz"}, []string{"a", "b", "c"},
	[]interface{}{"a", "b"}, []interface{}{"b"}, []interface{}{"a", 1}, []interface{}{},
	0, 1, 2, 5, 10, -3, int8(5), int16(10), int32(1), int64(1) << 40, int64(9007199254740992), uint(5), uint8(1), uint16(10), uint32(2),
	float32(5), float64(10), float64(1.5), float64(9007199254740992), float64(-3),
	true, false,
	nil, map[string]interface{}{"a": 1}, struct{}{}, []int{1},
}

var relNames = []any{"stable", "beta", "experimental", "bogus", nil}

var regexes = map[int][]string{
	1: {"", "^[a-c]*$", "^.{0,3}$"},
	2: {"", "^[a-c]*$"},
	3: {"", "^[0-9]+$"},
	4: {""},
}

var defaults = map[int][]any{
	1: {"a", "b"},
	2: {[]string{"a"}, []string{"b", "a"}},
	3: {1, 5, 10},
	4: {true, false},
}

var possibles = map[int][]any{
	1: {"a", "b"},
	2: {"a", "b"},
	3: {1, 5, 10},
}

func valFn(t int) func(v interface{}) error {
	switch t {
	case 1:
		return func(v interface{}) error {
			if len(v.(string)) > 2 || len(v.(string)) == 0 {
				return fmt.Errorf("too long or empty")
			}
			return nil
		}
	case 2:
		return func(v interface{}) error {
			if len(v.([]string)) > 2 || len(v.([]string)) == 0 {
				return fmt.Errorf("too many or none")
			}
			return nil
		}
	case 3:
		return func(v interface{}) error {
			if v.(int64)%2 == 0 && v.(int64) != 10 {
				return fmt.Errorf("even")
			}
			return nil
		}
	}
	return nil
}

func optKey(i int) string { return fmt.Sprintf("sim/opt%d", i) }

var cfgFile string

func (H) Reset() {
	log.VerifSimReset()
	config.VerifSimReset()
	if cfgFile == "" {
		cfgFile = fmt.Sprintf("cfgsim-%d.json", os.Getpid())
	}
	_ = os.Remove(cfgFile)
	config.VerifSimSetConfigPath(cfgFile)
}

func (H) Generate(prop string, rng *rand.Rand, tier string) any {
	p := &Plan{}
	n := 3 + rng.IntN(8)
	for i := 0; i < n; i++ {
		t := 1 + rng.IntN(4)
		o := OptSpec{Type: t, Regex: rng.IntN(len(regexes[t])), Release: []int{0, 0, 1, 2}[rng.IntN(4)], Default: rng.IntN(len(defaults[t]))}
		if t != 4 && rng.IntN(3) == 0 {
			o.Possible = true
		}
		if t != 4 && rng.IntN(4) == 0 {
			o.ValFn = true
		}
		p.Opts = append(p.Opts, o)
	}
	nops := 1 + rng.IntN(14)
	if tier == "thorough" {
		nops = 1 + rng.IntN(30)
	}
	for i := 0; i < nops; i++ {
		op := Op{}
		switch r := rng.IntN(20); {
		case r < 7:
			op.Kind = "set"
		case r < 10:
			op.Kind = "setdef"
		case r < 12:
			op.Kind = "replace"
		case r < 13:
			op.Kind = "replacedef"
		case r < 15:
			op.Kind = "saveload"
		case r < 18:
			op.Kind = "rel"
		default:
			op.Kind = "reldef"
		}
		op.Opt = rng.IntN(n)
		op.Val = pickVal(rng, p.Opts[op.Opt].Type)
		op.Rel = rng.IntN(len(relNames))
		if op.Kind == "replace" || op.Kind == "replacedef" {
			for k := 0; k < n; k++ {
				if rng.IntN(2) == 0 {
					op.Vals = append(op.Vals, -1)
				} else {
					op.Vals = append(op.Vals, pickVal(rng, p.Opts[k].Type))
				}
			}
			if rng.IntN(2) == 0 {
				op.Rel = -1
			}
		}
		p.Ops = append(p.Ops, op)
	}
	if rng.IntN(2) == 0 {
		p.Readers = 1 + rng.IntN(6)
		p.Reads = 2 + rng.IntN(10)
	} else {
		for i := range p.Ops {
			if p.Ops[i].Kind == "set" && rng.IntN(5) == 0 {
				p.Ops[i].NoSave = true
			}
		}
	}
	if rng.IntN(6) == 0 {
		// tight scenario: few plain options, only sets that succeed, readers and the writer never sleep, so every
		// interleaving of a getter's refresh with a set is up to the scheduler alone
		p.Tight = true
		n = 1 + rng.IntN(2)
		p.Opts = nil
		for i := 0; i < n; i++ {
			t := 1 + rng.IntN(4)
			p.Opts = append(p.Opts, OptSpec{Type: t, Default: rng.IntN(len(defaults[t]))})
		}
		p.Ops = nil
		for i, k := 0, 3+rng.IntN(8); i < k; i++ {
			op := Op{Kind: []string{"set", "set", "setdef"}[rng.IntN(3)], Opt: rng.IntN(n)}
			for {
				op.Val = pickVal(rng, p.Opts[op.Opt].Type)
				if _, ok := modelValidate(p.Opts[op.Opt], valuePool[op.Val]); ok || valuePool[op.Val] == nil {
					break
				}
			}
			p.Ops = append(p.Ops, op)
		}
		p.Readers = 1 + rng.IntN(2)
		p.Reads = 6 + rng.IntN(20)
	}
	return p
}

// pickVal prefers values of the right kind (half of the time) so that many sets succeed.
func pickVal(rng *rand.Rand, t int) int {
	if rng.IntN(2) == 0 {
		return rng.IntN(len(valuePool))
	}
	for {
		i := rng.IntN(len(valuePool))
		switch valuePool[i].(type) {
		case string:
			if t == 1 {
				return i
			}
		case []string, []interface{}:
			if t == 2 {
				return i
			}
		case bool:
			if t == 4 {
				return i
			}
		case nil:
			return i
		default:
			if t == 3 && reflect.ValueOf(valuePool[i]).Kind() != reflect.Map && reflect.ValueOf(valuePool[i]).Kind() != reflect.Struct && reflect.ValueOf(valuePool[i]).Kind() != reflect.Slice {
				return i
			}
		}
	}
}

func (H) Decode(prop string, raw json.RawMessage) (any, error) {
	p := &Plan{}
	return p, json.Unmarshal(raw, p)
}

func (H) Tune(prop string, plan any, cfg *simrt.Config) { cfg.MaxSteps = 300000 }

// ---- reference model ---------------------------------------------------------

type mval struct {
	set bool
	s   string
	a   []string
	i   int64
	b   bool
}

type mstate struct {
	user, def       []mval // per option
	relUser, relDef mval
}

func (m mstate) clone() mstate {
	n := mstate{user: append([]mval(nil), m.user...), def: append([]mval(nil), m.def...), relUser: m.relUser, relDef: m.relDef}
	return n
}

func (m mstate) level() int {
	v := "stable"
	if m.relDef.set {
		v = m.relDef.s
	}
	if m.relUser.set {
		v = m.relUser.s
	}
	switch v {
	case "beta":
		return 1
	case "experimental":
		return 2
	}
	return 0
}

func regDefault(o OptSpec) mval {
	v, _ := modelValidate(OptSpec{Type: o.Type}, defaults[o.Type][o.Default])
	return v
}

func (m mstate) value(opts []OptSpec, i int) mval {
	if m.user[i].set && opts[i].Release <= m.level() {
		return m.user[i]
	}
	if m.def[i].set {
		return m.def[i]
	}
	return regDefault(opts[i])
}

func toInt(v any) (int64, bool) {
	switch x := v.(type) {
	case int:
		return int64(x), true
	case int8:
		return int64(x), true
	case int16:
		return int64(x), true
	case int32:
		return int64(x), true
	case int64:
		return x, true
	case uint:
		return int64(x), true
	case uint8:
		return int64(x), true
	case uint16:
		return int64(x), true
	case uint32:
		return int64(x), true
	case float32:
		if math.Trunc(float64(x)) == float64(x) {
			return int64(x), true
		}
	case float64:
		if math.Trunc(x) == x {
			return int64(x), true
		}
	}
	return 0, false
}

// modelValidate restates the documented validation: type, regex, allowed values, validation function.
func modelValidate(o OptSpec, v any) (mval, bool) {
	rx := regexes[o.Type][o.Regex]
	var re *regexp.Regexp
	if rx != "" {
		re = regexp.MustCompile(rx)
	}
	allowedS := func(s string) bool {
		if !o.Possible {
			return true
		}
		for _, p := range possibles[o.Type] {
			if p == s {
				return true
			}
		}
		return false
	}
	switch o.Type {
	case 1:
		s, ok := v.(string)
		if !ok || (re != nil && !re.MatchString(s)) || !allowedS(s) {
			return mval{}, false
		}
		if o.ValFn && (len(s) > 2 || len(s) == 0) {
			return mval{}, false
		}
		return mval{set: true, s: s}, true
	case 2:
		var arr []string
		switch x := v.(type) {
		case []string:
			arr = x
		case []interface{}:
			arr = []string{}
			for _, e := range x {
				s, ok := e.(string)
				if !ok {
					return mval{}, false
				}
				arr = append(arr, s)
			}
		default:
			return mval{}, false
		}
		for _, s := range arr {
			if (re != nil && !re.MatchString(s)) || !allowedS(s) {
				return mval{}, false
			}
		}
		if o.ValFn && (len(arr) > 2 || len(arr) == 0) {
			return mval{}, false
		}
		return mval{set: true, a: arr}, true
	case 3:
		n, ok := toInt(v)
		if !ok {
			return mval{}, false
		}
		if re != nil && !re.MatchString(fmt.Sprint(n)) {
			return mval{}, false
		}
		if o.Possible {
			found := false
			for _, p := range possibles[3] {
				if int64(p.(int)) == n {
					found = true
				}
			}
			if !found {
				return mval{}, false
			}
		}
		if o.ValFn && n%2 == 0 && n != 10 {
			return mval{}, false
		}
		return mval{set: true, i: n}, true
	case 4:
		b, ok := v.(bool)
		if !ok {
			return mval{}, false
		}
		return mval{set: true, b: b}, true
	}
	return mval{}, false
}

func relValidate(v any) (mval, bool) {
	s, ok := v.(string)
	if !ok || (s != "stable" && s != "beta" && s != "experimental") {
		return mval{}, false
	}
	return mval{set: true, s: s}, true
}

// ---- execution -----------------------------------------------------------------

type opRec struct {
	Inv, Ret uint64
	After    mstate
}

type readRec struct {
	Opt      int
	Kind     string
	Inv, Ret uint64
	Got      mval
}

type state struct {
	p     *Plan
	rc    *simkit.RunCtx
	model mstate
	ops   []opRec
	reads []readRec
	init  mstate
}

type getters struct {
	s []config.StringOption
	a []config.StringArrayOption
	i []config.IntOption
	b []config.BoolOption
	// wrong-type getters: requested as the "next" type
	wrong []func() mval
}

var fallbackS, fallbackA, fallbackI, fallbackB = "FALLBACK", []string{"FALLBACK"}, int64(-424242), true

func mkGetters(p *Plan, concurrent bool) *getters {
	g := &getters{}
	for i, o := range p.Opts {
		k := optKey(i)
		var gs config.StringOption
		var ga config.StringArrayOption
		var gi config.IntOption
		var gb config.BoolOption
		if concurrent {
			gs, ga, gi, gb = config.Concurrent.GetAsString(k, fallbackS), config.Concurrent.GetAsStringArray(k, fallbackA), config.Concurrent.GetAsInt(k, fallbackI), config.Concurrent.GetAsBool(k, fallbackB)
		} else {
			gs, ga, gi, gb = config.GetAsString(k, fallbackS), config.GetAsStringArray(k, fallbackA), config.GetAsInt(k, fallbackI), config.GetAsBool(k, fallbackB)
		}
		g.s, g.a, g.i, g.b = append(g.s, gs), append(g.a, ga), append(g.i, gi), append(g.b, gb)
		_ = o
	}
	return g
}

func (g *getters) read(p *Plan, i int) mval {
	switch p.Opts[i].Type {
	case 1:
		return mval{set: true, s: g.s[i]()}
	case 2:
		return mval{set: true, a: g.a[i]()}
	case 3:
		return mval{set: true, i: g.i[i]()}
	default:
		return mval{set: true, b: g.b[i]()}
	}
}

// wrongType reads option i through the getters of the other three types and
// reports whether each returned its fallback.
func (g *getters) wrongType(p *Plan, i int) string {
	t := p.Opts[i].Type
	if t != 1 && g.s[i]() != fallbackS {
		return "string getter on non-string option"
	}
	if t != 2 && !reflect.DeepEqual(g.a[i](), fallbackA) {
		return "string-array getter on non-array option"
	}
	if t != 3 && g.i[i]() != fallbackI {
		return "int getter on non-int option"
	}
	if t != 4 && g.b[i]() != fallbackB {
		return "bool getter on non-bool option"
	}
	return ""
}

func eq(t int, a, b mval) bool {
	switch t {
	case 1:
		return a.s == b.s
	case 2:
		if len(a.a) != len(b.a) {
			return false
		}
		for i := range a.a {
			if a.a[i] != b.a[i] {
				return false
			}
		}
		return true
	case 3:
		return a.i == b.i
	default:
		return a.b == b.b
	}
}

func show(t int, v mval) string {
	switch t {
	case 1:
		return fmt.Sprintf("%q", v.s)
	case 2:
		return fmt.Sprintf("%q", v.a)
	case 3:
		return fmt.Sprint(v.i)
	default:
		return fmt.Sprint(v.b)
	}
}

// apply performs op on portbase and on the model; returns a failure description.
func (s *state) apply(op Op) (class, witness, detail string) {
	p := s.p
	defer func() {
		if r := recover(); r != nil {
			class, witness, detail = "C04.panic", fmt.Sprintf("%s panicked", op.Kind), fmt.Sprintf("%v (op %+v)", r, op)
			if op.Kind == "replace" || op.Kind == "replacedef" {
				for k, vi := range op.Vals {
					if vi >= 0 && valuePool[vi] == nil && p.Opts[k].Possible {
						witness = "whole-layer replace panicked on a nil entry for an option with allowed values"
					}
				}
				if op.Rel == 4 {
					witness = "whole-layer replace panicked on a nil entry for an option with allowed values"
				}
			}
		}
	}()
	m := s.model.clone()
	switch op.Kind {
	case "set", "setdef":
		v := valuePool[op.Val]
		o := p.Opts[op.Opt]
		var err error
		if op.Kind == "set" && op.NoSave && p.Readers == 0 {
			_ = os.MkdirAll(cfgFile+".dir", 0o755)
			config.VerifSimSetConfigPath(cfgFile + ".dir")
			err = config.SetConfigOption(optKey(op.Opt), v)
			config.VerifSimSetConfigPath(cfgFile)
			s.rc.Fault("config-file-not-writable")
			if mv, ok := modelValidate(o, v); ok || v == nil {
				// a value that passes validation and a file that cannot be written: the value is in force or it is not,
				// but the user layer decides that for every getter alike
				if opt, gerr := config.GetOption(optKey(op.Opt)); gerr == nil {
					uv := opt.UserValue()
					switch {
					case uv == nil && !opt.IsSetByUser():
						m.user[op.Opt] = mval{}
					default:
						if umv, uok := modelValidate(OptSpec{Type: o.Type}, uv); uok {
							m.user[op.Opt] = umv
						}
					}
					_ = mv
				}
				s.model = m
				return "", "", ""
			}
		}
		if op.Kind == "set" && !(op.NoSave && p.Readers == 0) {
			err = config.SetConfigOption(optKey(op.Opt), v)
		} else if op.Kind == "set" {
			// (validation failure with an unwritable file: handled like any rejected value below)
		} else {
			err = config.SetDefaultConfigOption(optKey(op.Opt), v)
		}
		layer := m.user
		if op.Kind == "setdef" {
			layer = m.def
		}
		if v == nil {
			layer[op.Opt] = mval{}
			if err != nil {
				return "C04.set-result", "clearing a layer with nil returned an error", fmt.Sprintf("%s %s: %v", op.Kind, optKey(op.Opt), err)
			}
		} else {
			mv, ok := modelValidate(o, v)
			if ok != (err == nil) {
				if ok {
					return "C04.set-result", "a valid value was rejected", fmt.Sprintf("%s %s = %#v (spec %+v): %v", op.Kind, optKey(op.Opt), v, o, err)
				}
				return "C04.set-result", "an invalid value was accepted", fmt.Sprintf("%s %s = %#v (spec %+v)", op.Kind, optKey(op.Opt), v, o)
			}
			if ok {
				layer[op.Opt] = mv
			}
		}
	case "rel", "reldef":
		v := relNames[op.Rel]
		var err error
		if op.Kind == "rel" {
			err = config.SetConfigOption("core/releaseLevel", v)
		} else {
			err = config.SetDefaultConfigOption("core/releaseLevel", v)
		}
		tgt := &m.relUser
		if op.Kind == "reldef" {
			tgt = &m.relDef
		}
		if v == nil {
			*tgt = mval{}
		} else {
			mv, ok := relValidate(v)
			if ok != (err == nil) {
				return "C04.set-result", "release-level value validation differs", fmt.Sprintf("%s = %#v: %v", op.Kind, v, err)
			}
			if ok {
				*tgt = mv
			}
		}
	case "replace", "replacedef":
		vals := map[string]interface{}{}
		invalid := 0
		layer := m.user
		rel := &m.relUser
		if op.Kind == "replacedef" {
			layer = m.def
			rel = &m.relDef
		}
		for k := range p.Opts {
			layer[k] = mval{}
			if k < len(op.Vals) && op.Vals[k] >= 0 {
				v := valuePool[op.Vals[k]]
				vals[optKey(k)] = v
				mv, ok := modelValidate(p.Opts[k], v)
				if ok {
					layer[k] = mv
				} else {
					invalid++
				}
			}
		}
		*rel = mval{}
		if op.Rel >= 0 {
			vals["core/releaseLevel"] = relNames[op.Rel]
			mv, ok := relValidate(relNames[op.Rel])
			if ok {
				*rel = mv
			} else {
				invalid++
			}
		}
		vals["sim/unknown-option"] = "x"
		var errs []*config.ValidationError
		if op.Kind == "replace" {
			errs, _ = config.ReplaceConfig(vals)
		} else {
			errs, _ = config.ReplaceDefaultConfig(vals)
		}
		if len(errs) != invalid {
			return "C04.replace-errors", "whole-layer replace reported a different number of invalid entries than the map contains", fmt.Sprintf("%s: reported %d, invalid %d (%v)", op.Kind, len(errs), invalid, vals)
		}
	case "saveload":
		if err := config.SaveConfig(); err != nil {
			return "C04.save", "SaveConfig failed", err.Error()
		}
		if err := config.VerifSimLoadConfig(); err != nil {
			return "C04.load", "loading the saved configuration failed", err.Error()
		}
		if n := len(config.GetLoadedConfigValidationErrors()); n != 0 {
			return "C04.load", "loading the saved configuration reported validation errors", fmt.Sprint(n)
		}
		s.rc.Probe("save-load")
	}
	s.model = m
	return "", "", ""
}

func (s *state) checkAll(g *getters, when string) bool {
	p := s.p
	for i, o := range p.Opts {
		want := s.model.value(p.Opts, i)
		got := g.read(p, i)
		if !eq(o.Type, got, want) {
			note := ""
			if s.model.relUser.set && s.model.relDef.set && s.model.relUser.s != s.model.relDef.s {
				note = " (release level set differently in the user and the default layer)"
			}
			s.rc.Fail("C04.getter-value", "a getter returned a value different from the layered value"+note,
				fmt.Sprintf("%s: %s (%+v) got %s want %s; level=%d", when, optKey(i), o, show(o.Type, got), show(o.Type, want), s.model.level()))
			return false
		}
		if w := g.wrongType(p, i); w != "" {
			s.rc.Fail("C04.wrong-type-fallback", "a getter requested with the wrong type did not return its fallback", w+" "+optKey(i))
			return false
		}
	}
	return true
}

func (s *state) checkMeta(when string) bool {
	p := s.p
	active := config.GetActiveConfigValues()
	for i, o := range p.Opts {
		opt, err := config.GetOption(optKey(i))
		if err != nil {
			s.rc.Fail("C04.harness", "option vanished", err.Error())
			return false
		}
		u := s.model.user[i]
		if opt.IsSetByUser() != u.set {
			s.rc.Fail("C04.user-value", "IsSetByUser differs from the user layer", fmt.Sprintf("%s: %s", when, optKey(i)))
			return false
		}
		uv := opt.UserValue()
		if u.set {
			mv, ok := modelValidate(OptSpec{Type: o.Type}, uv)
			if !ok || !eq(o.Type, mv, u) {
				s.rc.Fail("C04.user-value", "UserValue differs from the user layer", fmt.Sprintf("%s: %s got %#v want %s", when, optKey(i), uv, show(o.Type, u)))
				return false
			}
		} else if uv != nil {
			s.rc.Fail("C04.user-value", "UserValue set although the user layer is empty", optKey(i))
			return false
		}
		av, inActive := active[optKey(i)]
		wantActive := u.set && o.Release <= s.model.level()
		if inActive != wantActive {
			s.rc.Fail("C04.active-values", "GetActiveConfigValues differs from the enabled user layer", fmt.Sprintf("%s: %s listed=%v want=%v", when, optKey(i), inActive, wantActive))
			return false
		}
		if inActive {
			mv, ok := modelValidate(OptSpec{Type: o.Type}, av)
			if !ok || !eq(o.Type, mv, u) {
				s.rc.Fail("C04.active-values", "GetActiveConfigValues lists a wrong value", optKey(i))
				return false
			}
		}
	}
	return true
}

func (H) Execute(prop string, plan any, rc *simkit.RunCtx) {
	p := plan.(*Plan)
	s := &state{p: p, rc: rc}
	rc.Data = s
	for i, o := range p.Opts {
		opt := &config.Option{Name: optKey(i), Key: optKey(i), Description: "simulated option", OptType: config.OptionType(o.Type),
			ReleaseLevel: config.ReleaseLevel(o.Release), DefaultValue: defaults[o.Type][o.Default], ValidationRegex: regexes[o.Type][o.Regex]}
		if o.Possible {
			for _, pv := range possibles[o.Type] {
				opt.PossibleValues = append(opt.PossibleValues, config.PossibleValue{Name: fmt.Sprint(pv), Value: pv})
			}
		}
		if o.ValFn {
			opt.ValidationFunc = valFn(o.Type)
		}
		if err := config.Register(opt); err != nil {
			// the registered default does not satisfy the generated constraints: drop them
			p.Opts[i].Regex, p.Opts[i].Possible, p.Opts[i].ValFn = 0, false, false
			opt.ValidationRegex, opt.PossibleValues, opt.ValidationFunc = "", nil, nil
			if err := config.Register(opt); err != nil {
				rc.Fail("C04.harness", "Register failed", err.Error())
				return
			}
		}
		s.model.user = append(s.model.user, mval{})
		s.model.def = append(s.model.def, mval{})
	}
	s.init = s.model.clone()
	old := mkGetters(p, false)
	oldC := mkGetters(p, true)
	if !s.checkAll(old, "initially") {
		return
	}
	if u := config.GetAsString("sim/unknown", "FB")(); u != "FB" {
		rc.Fail("C04.unknown-fallback", "getter for an unknown option did not return its fallback", u)
		return
	}
	if p.Readers == 0 {
		for k, op := range p.Ops {
			if c, w, d := s.apply(op); c != "" {
				rc.Fail(c, w, d)
				return
			}
			rc.H("op %s", op.Kind)
			when := fmt.Sprintf("after op %d (%s)", k, op.Kind)
			if !s.checkAll(old, when+" via getters created at the beginning") || !s.checkAll(oldC, when+" via concurrent getters created at the beginning") ||
				!s.checkAll(mkGetters(p, false), when+" via fresh getters") || !s.checkMeta(when) {
				return
			}
		}
		return
	}
	// concurrent mode
	done := make(chan struct{}, p.Readers+1)
	stop := false
	owns := make([]*getters, p.Readers)
	for r := 0; r < p.Readers; r++ {
		own := mkGetters(p, false)
		r := r
		go func() {
			defer func() { done <- struct{}{} }()
			for n := 0; n < p.Reads && !stop; n++ {
				for i := range p.Opts {
					g, kind := own, "own"
					if (n+i+r)%2 == 0 {
						g, kind = oldC, "shared-concurrent"
					}
					rr := readRec{Opt: i, Kind: kind, Inv: simrt.Seq()}
					rr.Got = g.read(p, i)
					rr.Ret = simrt.Seq()
					s.reads = append(s.reads, rr)
				}
				if !p.Tight {
					time.Sleep(time.Millisecond)
				}
			}
			owns[r] = own
		}()
	}
	go func() {
		defer func() { done <- struct{}{} }()
		for _, op := range p.Ops {
			inv := simrt.Seq()
			c, w, d := s.apply(op)
			if c != "" {
				rc.Fail(c, w, d)
				stop = true
				return
			}
			s.ops = append(s.ops, opRec{Inv: inv, Ret: simrt.Seq(), After: s.model.clone()})
			if !p.Tight {
				time.Sleep(time.Millisecond)
			}
		}
	}()
	for i := 0; i < p.Readers+1; i++ {
		<-done
	}
	if !rc.Failed() {
		s.checkAll(oldC, "after the concurrent phase via shared concurrent getters")
	}
	for r, own := range owns {
		if own != nil && !rc.Failed() {
			s.checkAll(own, fmt.Sprintf("after the concurrent phase via the getters of reader %d", r))
		}
	}
}

func (H) Check(prop string, plan any, rc *simkit.RunCtx) {
	p := plan.(*Plan)
	s, _ := rc.Data.(*state)
	if s == nil {
		return
	}
	rc.H("opts=%d ops=%d readers=%d reads=%d", len(p.Opts), len(p.Ops), p.Readers, len(s.reads))
	if rc.Stats.Stalled {
		rc.Fail("C04.stall", "a config call never returned", rc.Stats.StallInfo)
		return
	}
	if rc.Stats.StepCap {
		rc.Inconcl = "step-cap"
		return
	}
	for _, r := range s.reads {
		first := 0
		for i, o := range s.ops {
			if o.Ret < r.Inv {
				first = i + 1
			}
		}
		last := first
		for i, o := range s.ops {
			if o.Inv < r.Ret && i+1 > last {
				last = i + 1
			}
		}
		ok := false
		var wants []string
		// States in force during the read. A whole-layer replace is not atomic across
		// options, so while one is in progress the release level, the user layer and the
		// default layer of this option may each be from before or after it.
		var sts []mstate
		for k := first; k <= last; k++ {
			if k == 0 {
				sts = append(sts, s.init)
			} else {
				sts = append(sts, s.ops[k-1].After)
			}
		}
		for _, a := range sts {
			for _, b := range sts {
				for _, c := range sts {
					mix := a.clone()
					mix.user[r.Opt] = b.user[r.Opt]
					mix.def[r.Opt] = c.def[r.Opt]
					want := mix.value(p.Opts, r.Opt)
					wants = append(wants, show(p.Opts[r.Opt].Type, want))
					if eq(p.Opts[r.Opt].Type, r.Got, want) {
						ok = true
					}
				}
			}
		}
		if last > first {
			rc.Probe("read-overlapped-set")
		}
		if !ok {
			rc.Fail("C04.stale-read", "a getter call that began after a set operation returned did not observe the new state",
				fmt.Sprintf("%s getter for %s got %s, allowed %s", r.Kind, optKey(r.Opt), show(p.Opts[r.Opt].Type, r.Got), strings.Join(wants, " | ")))
			return
		}
	}
}

func (H) Shrink(prop string, plan any) []any {
	p := plan.(*Plan)
	var out []any
	clone := func() *Plan {
		q := *p
		q.Opts = append([]OptSpec(nil), p.Opts...)
		q.Ops = nil
		for _, o := range p.Ops {
			o.Vals = append([]int(nil), o.Vals...)
			q.Ops = append(q.Ops, o)
		}
		return &q
	}
	if len(p.Ops) > 1 {
		q := clone()
		q.Ops = q.Ops[:len(q.Ops)/2]
		out = append(out, q)
	}
	for i := range p.Ops {
		if len(p.Ops) > 1 {
			q := clone()
			q.Ops = append(q.Ops[:i], q.Ops[i+1:]...)
			out = append(out, q)
		}
	}
	if p.Readers > 1 {
		q := clone()
		q.Readers = 1
		out = append(out, q)
	}
	if p.Readers > 0 {
		q := clone()
		q.Readers = 0
		out = append(out, q)
	}
	// drop the last option if no op refers to it
	if n := len(p.Opts); n > 1 {
		used := false
		for _, o := range p.Ops {
			if (o.Kind == "set" || o.Kind == "setdef") && o.Opt == n-1 {
				used = true
			}
		}
		if !used {
			q := clone()
			q.Opts = q.Opts[:n-1]
			for k := range q.Ops {
				if len(q.Ops[k].Vals) > n-1 {
					q.Ops[k].Vals = q.Ops[k].Vals[:n-1]
				}
				if q.Ops[k].Opt >= n-1 {
					q.Ops[k].Opt = 0
				}
			}
			out = append(out, q)
		}
	}
	for i, o := range p.Opts {
		if o.Regex != 0 || o.Possible || o.ValFn || o.Release != 0 {
			q := clone()
			q.Opts[i].Regex, q.Opts[i].Possible, q.Opts[i].ValFn, q.Opts[i].Release = 0, false, false, 0
			out = append(out, q)
		}
	}
	for i, o := range p.Ops {
		for k, v := range o.Vals {
			if v >= 0 {
				q := clone()
				q.Ops[i].Vals[k] = -1
				out = append(out, q)
			}
		}
	}
	return out
}
