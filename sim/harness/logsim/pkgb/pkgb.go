// Package pkgb is a log origin (its directory name is what per-package levels key on).
package pkgb

import (
	"context"

	"github.com/safing/portbase/log"
)

// Log logs msg at severity sev (1..6); every severity has exactly one call site.
func Log(sev int, msg string) {
	switch sev {
	case 1:
		log.Trace(msg)
	case 2:
		log.Debug(msg)
	case 3:
		log.Info(msg)
	case 4:
		log.Warning(msg)
	case 5:
		log.Error(msg)
	default:
		log.Critical(msg)
	}
}

// AddTracer creates a tracer with this package as origin.
func AddTracer(ctx context.Context) (context.Context, *log.ContextTracer) {
	return log.AddTracer(ctx)
}

// TLog logs on a tracer.
func TLog(tr *log.ContextTracer, sev int, msg string) {
	switch sev {
	case 1:
		tr.Trace(msg)
	case 2:
		tr.Debug(msg)
	case 3:
		tr.Info(msg)
	case 4:
		tr.Warning(msg)
	case 5:
		tr.Error(msg)
	default:
		tr.Critical(msg)
	}
}

// LogF logs msg at severity sev through the formatting variants.
func LogF(sev int, msg string) {
	switch sev {
	case 1:
		log.Tracef("%s", msg)
	case 2:
		log.Debugf("%s", msg)
	case 3:
		log.Infof("%s", msg)
	case 4:
		log.Warningf("%s", msg)
	case 5:
		log.Errorf("%s", msg)
	default:
		log.Criticalf("%s", msg)
	}
}

// TLogF logs on a tracer through the formatting variants.
func TLogF(tr *log.ContextTracer, sev int, msg string) {
	switch sev {
	case 1:
		tr.Tracef("%s", msg)
	case 2:
		tr.Debugf("%s", msg)
	case 3:
		tr.Infof("%s", msg)
	case 4:
		tr.Warningf("%s", msg)
	case 5:
		tr.Errorf("%s", msg)
	default:
		tr.Criticalf("%s", msg)
	}
}
