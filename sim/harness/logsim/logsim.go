// Package logsim drives portbase/log inside the simulator (C20).
package logsim

import (
	"context"
	"encoding/json"
	"fmt"
	"math/rand/v2"
	"sort"
	"strings"
	"time"

	"github.com/safing/portbase/log"
	"github.com/safing/portbase/verifsim/harness/logsim/pkga"
	"github.com/safing/portbase/verifsim/harness/logsim/pkgb"
	"github.com/safing/portbase/verifsim/simkit"
	"github.com/safing/portbase/verifsim/simrt"
)

// H is the harness.
type H struct{}

// LogPlan is one generated logging scenario.
type LogPlan struct {
	Producers     [][]LogOp `json:"producers"`
	Ctrl          []CtrlOp  `json:"ctrl,omitempty"`
	Sched         bool      `json:"sched,omitempty"`
	Trigger       int       `json:"trigger"`             // sleepLadder index between TriggerWriter calls; -1 never
	SlowAdapter   int       `json:"slow_adapter"`        // sleepLadder index, 0 = instant
	ShutdownAfter int       `json:"shutdown_after"`      // -1: after all producers finished; else sleepLadder index
	Shutdown2     bool      `json:"shutdown2,omitempty"` // a second goroutine calls Shutdown at the same time
	PreStart      int       `json:"pre_start,omitempty"`
	InitLevel     int       `json:"init_level"`
	Fmt           bool      `json:"fmt,omitempty"` // log through the formatting variants
	// AdapterPanic k > 0: the output adapter panics on its k-th call, once (the package recovers and restarts its
	// writer). Only in runs that cannot fill the buffer.
	AdapterPanic int `json:"adapter_panic,omitempty"`
}

// LogOp is one producer operation.
type LogOp struct {
	Kind   string `json:"k"` // log | burst | tracer | sleep
	Sev    int    `json:"sev,omitempty"`
	Pkg    int    `json:"pkg,omitempty"`
	N      int    `json:"n,omitempty"`
	Arg    int    `json:"arg,omitempty"`
	Dup    bool   `json:"dup,omitempty"`    // tracer: the submission is made twice in a row with the same final line (and different collected lines)
	Nested bool   `json:"nested,omitempty"` // tracer: a second AddTracer on the context that already carries the tracer (nested handlers); only the outer one submits what was collected
	Shared bool   `json:"shared,omitempty"` // tracer: the lines are collected by several goroutines that share the tracer (a request handler and its helpers)
}

// CtrlOp is one operation of the control goroutine.
type CtrlOp struct {
	Kind  string `json:"k"` // level | pkg | unpkg | sleep
	Level int    `json:"level,omitempty"`
	A, B  int    `json:",omitempty"` // per-package levels (0 = not in map)
	Arg   int    `json:"arg,omitempty"`
}

var sleepLadder = []time.Duration{0, time.Millisecond, 5 * time.Millisecond, 20 * time.Millisecond, 200 * time.Millisecond, 2 * time.Second}

func (H) Reset() { log.VerifSimReset() }

func (H) Generate(prop string, rng *rand.Rand, tier string) any {
	p := &LogPlan{Sched: rng.IntN(2) == 0, Trigger: -1, ShutdownAfter: -1, InitLevel: 1 + rng.IntN(4)}
	defer func() { p.Fmt = rng.IntN(2) == 0 }()
	np := 1 + rng.IntN(8)
	budget := []int{30, 120, 600, 3000}[rng.IntN(4)]
	if budget <= 120 && rng.IntN(4) == 0 {
		p.AdapterPanic = 1 + rng.IntN(12)
	}
	if tier != "thorough" && budget > 1500 {
		budget = 1500
	}
	for i := 0; i < np; i++ {
		var ops []LogOp
		n := 1 + rng.IntN(12)
		for k := 0; k < n; k++ {
			op := LogOp{Sev: 1 + rng.IntN(6), Pkg: rng.IntN(2)}
			switch r := rng.IntN(10); {
			case r < 5:
				op.Kind = "log"
			case r < 7:
				op.Kind = "burst"
				op.N = 2 + rng.IntN(1+budget/np)
				if rng.IntN(2) == 0 {
					op.N = 2 + rng.IntN(6)
				}
			case r < 8:
				op.Kind = "tracer"
				op.N = 1 + rng.IntN(5)
				op.Dup = rng.IntN(3) == 0
				op.Shared = rng.IntN(3) == 0
				op.Nested = !op.Dup && !op.Shared && rng.IntN(3) == 0
				if rng.IntN(5) == 0 {
					op.Kind, op.Nested, op.Dup, op.Shared = "twin", false, false, false
				}
			default:
				op.Kind = "sleep"
				op.Arg = rng.IntN(len(sleepLadder))
			}
			ops = append(ops, op)
		}
		p.Producers = append(p.Producers, ops)
	}
	nc := rng.IntN(6)
	for i := 0; i < nc; i++ {
		c := CtrlOp{}
		switch rng.IntN(5) {
		case 0, 1:
			c.Kind = "level"
			c.Level = 1 + rng.IntN(6)
		case 2:
			c.Kind = "pkg"
			c.A, c.B = rng.IntN(7), rng.IntN(7)
		case 3:
			c.Kind = "unpkg"
		default:
			c.Kind = "sleep"
			c.Arg = rng.IntN(len(sleepLadder))
		}
		p.Ctrl = append(p.Ctrl, c)
	}
	if p.Sched && rng.IntN(3) != 0 {
		p.Trigger = 1 + rng.IntN(len(sleepLadder)-1)
	}
	if rng.IntN(4) == 0 {
		p.SlowAdapter = rng.IntN(4)
	}
	if rng.IntN(3) == 0 {
		p.ShutdownAfter = rng.IntN(len(sleepLadder))
	}
	if rng.IntN(5) == 0 {
		p.PreStart = 1 + rng.IntN(4)
	}
	p.Shutdown2 = rng.IntN(4) == 0
	if rng.IntN(8) == 0 {
		// full-buffer scenario: everything enabled, one producer fills the 1024-slot buffer, then plain lines and
		// tracer submissions of all producers meet the full buffer
		p.InitLevel = 1
		p.Ctrl = nil
		fill := LogOp{Kind: "burst", Sev: 2 + rng.IntN(5), Pkg: rng.IntN(2), N: 1020 + rng.IntN(60)}
		tail := []LogOp{{Kind: "tracer", Sev: 2 + rng.IntN(5), Pkg: rng.IntN(2), N: 1 + rng.IntN(5)}, {Kind: "log", Sev: 2 + rng.IntN(5), Pkg: rng.IntN(2)},
			{Kind: "tracer", Sev: 2 + rng.IntN(5), Pkg: rng.IntN(2), N: 1 + rng.IntN(5)}}
		p.Producers[0] = append(append([]LogOp{fill}, tail...), p.Producers[0]...)
		if len(p.Producers[0]) > 8 {
			p.Producers[0] = p.Producers[0][:8]
		}
		for i := 1; i < len(p.Producers); i++ {
			for k := range p.Producers[i] {
				if p.Producers[i][k].Kind == "burst" && p.Producers[i][k].N > 8 {
					p.Producers[i][k].N = 2 + rng.IntN(6)
				}
			}
		}
	}
	return p
}

func (H) Decode(prop string, raw json.RawMessage) (any, error) {
	p := &LogPlan{}
	return p, json.Unmarshal(raw, p)
}

func (H) Tune(prop string, plan any, cfg *simrt.Config) {
	cfg.MaxSteps = 400000
	cfg.MaxAdvIdx = 3
}

type levelState struct {
	Global int
	Active bool
	A, B   int
}

func (ls levelState) enabled(pkg, sev int) bool {
	if ls.Active {
		l := ls.A
		if pkg == 1 {
			l = ls.B
		}
		if l != 0 {
			return sev >= l
		}
	}
	return sev >= ls.Global
}

type ctrlRec struct {
	Inv, Ret uint64
	After    levelState
}

type callRec struct {
	Prod, Op       int
	Payload        string
	Sev, Pkg       int
	Inv, Ret       uint64
	Returned       bool
	Tracer         []string // for tracer submissions: the lines collected before the main line
	AnyOrder       bool     // ... by several goroutines: their relative order is open
	AddInv, AddRet uint64   // tracer submissions: when the tracer was asked for
	IsSubmit       bool
}

type outRec struct {
	Site   string // file:line of the call site as the adapter sees it
	Seq    uint64
	Text   string
	Sev    int
	Dup    uint64
	Tracer []string
}

type state struct {
	p                          *LogPlan
	rc                         *simkit.RunCtx
	calls                      []*callRec
	ctrl                       []ctrlRec
	init                       levelState
	out                        []outRec
	startRet, shutInv, shutRet uint64
	shutReturned               bool
	twins                      []string // payloads logged from two call sites in a row
	adapterCalls               int
	adapterPanicked            bool
}

// useFmt: this run logs through the formatting variants (Infof, tracer.Warningf, ...)
var useFmt bool

func logAt(pkg, sev int, msg string) { logVia(pkg, sev, msg, useFmt) }

func logVia(pkg, sev int, msg string, useFmt bool) {
	switch {
	case pkg == 0 && useFmt:
		pkga.LogF(sev, msg)
	case pkg == 0:
		pkga.Log(sev, msg)
	case useFmt:
		pkgb.LogF(sev, msg)
	default:
		pkgb.Log(sev, msg)
	}
}

func tlogAt(pkg int, tr *log.ContextTracer, sev int, msg string) {
	switch {
	case pkg == 0 && useFmt:
		pkga.TLogF(tr, sev, msg)
	case pkg == 0:
		pkga.TLog(tr, sev, msg)
	case useFmt:
		pkgb.TLogF(tr, sev, msg)
	default:
		pkgb.TLog(tr, sev, msg)
	}
}

func (s *state) call(prod, op int, payload string, sev, pkg int) {
	c := &callRec{Prod: prod, Op: op, Payload: payload, Sev: sev, Pkg: pkg, Inv: simrt.Seq()}
	s.calls = append(s.calls, c)
	logAt(pkg, sev, payload)
	c.Ret = simrt.Seq()
	c.Returned = true
}

func (H) Execute(prop string, plan any, rc *simkit.RunCtx) {
	p := plan.(*LogPlan)
	s := &state{p: p, rc: rc}
	rc.Data = s
	s.init = levelState{Global: p.InitLevel}
	useFmt = p.Fmt
	if p.Fmt {
		rc.Probe("formatting-variants")
	}
	log.SetLogLevel(log.Severity(p.InitLevel))
	delay := sleepLadder[p.SlowAdapter]
	log.SetAdapter(log.AdapterFunc(func(msg log.Message, duplicates uint64) {
		if delay > 0 {
			time.Sleep(delay)
		}
		s.out = append(s.out, outRec{Seq: simrt.Seq(), Text: msg.Text(), Sev: int(msg.Severity()), Dup: duplicates, Tracer: log.VerifSimTracerLines(msg),
			Site: fmt.Sprintf("%s:%d", msg.File(), msg.LineNumber())})
		s.adapterCalls++
		if p.AdapterPanic > 0 && s.adapterCalls == p.AdapterPanic && !strings.HasPrefix(msg.Text(), "log: writer failed") {
			// the line counts as handed over; the adapter breaks afterwards
			s.adapterPanicked = true
			rc.Fault("adapter-panic")
			panic("injected adapter panic")
		}
	}))
	if p.Sched {
		log.EnableScheduling()
	}
	for i := 0; i < p.PreStart; i++ {
		logAt(0, 6, fmt.Sprintf("pre-%d", i))
	}
	if err := log.Start(); err != nil {
		rc.Fail("C20.harness", "log.Start failed", err.Error())
		return
	}
	s.startRet = simrt.Seq()
	stopTrigger := make(chan struct{})
	if p.Trigger >= 0 {
		go func() {
			for {
				select {
				case <-stopTrigger:
					return
				case <-time.After(sleepLadder[p.Trigger]):
					log.TriggerWriter()
				}
			}
		}()
	}
	done := make(chan struct{}, len(p.Producers)+1)
	for pi, ops := range p.Producers {
		pi, ops := pi, ops
		go func() {
			defer func() { done <- struct{}{} }()
			for oi, op := range ops {
				payload := fmt.Sprintf("g%d-%d", pi, oi)
				switch op.Kind {
				case "sleep":
					time.Sleep(sleepLadder[op.Arg])
				case "log":
					s.call(pi, oi, payload, op.Sev, op.Pkg)
				case "burst":
					for k := 0; k < op.N; k++ {
						s.call(pi, oi, payload, op.Sev, op.Pkg)
					}
				case "twin":
					// the same text, level and file from two different call sites, one right after the other: two
					// lines that are not identical
					for k := 0; k < 2; k++ {
						c := &callRec{Prod: pi, Op: oi, Payload: payload, Sev: op.Sev, Pkg: op.Pkg, Inv: simrt.Seq()}
						s.calls = append(s.calls, c)
						logVia(op.Pkg, op.Sev, payload, k == 1)
						c.Ret, c.Returned = simrt.Seq(), true
					}
					s.twins = append(s.twins, payload)
				case "tracer":
					var tr, inner *log.ContextTracer
					var tctx context.Context
					addInv := simrt.Seq()
					if op.Pkg == 0 {
						tctx, tr = pkga.AddTracer(context.Background())
					} else {
						tctx, tr = pkgb.AddTracer(context.Background())
					}
					addRet := simrt.Seq()
					if tr != nil && op.Nested {
						// a nested handler asks for a tracer on the context that already carries one: there is one
						// trace, submitted once; the inner handler's own Submit has nothing to submit
						if op.Pkg == 0 {
							_, inner = pkga.AddTracer(tctx)
						} else {
							_, inner = pkgb.AddTracer(tctx)
						}
						rc.Probe("nested-add-tracer")
					}
					if tr == nil {
						// tracing not enabled for this origin: lines are logged directly
						for k := 0; k < op.N; k++ {
							c := &callRec{Prod: pi, Op: oi, Payload: payload, Sev: op.Sev, Pkg: op.Pkg, Inv: simrt.Seq()}
							s.calls = append(s.calls, c)
							tlogAt(op.Pkg, nil, op.Sev, payload)
							c.Ret, c.Returned = simrt.Seq(), true
						}
						rc.Probe("tracer-disabled")
						continue
					}
					rounds := 1
					if op.Dup {
						rounds = 2
					}
					for round := 0; round < rounds; round++ {
						if round == 1 {
							// a second trace that ends in the very same line: still a submission of its own
							if op.Pkg == 0 {
								_, tr = pkga.AddTracer(context.Background())
							} else {
								_, tr = pkgb.AddTracer(context.Background())
							}
							if tr == nil {
								break
							}
							rc.Probe("tracer-submitted-twice-in-a-row")
						}
						var lines []string
						if op.Shared && op.N-1+round >= 2 {
							helpers := make(chan struct{}, op.N+1)
							for k := 0; k < op.N-1+round; k++ {
								l := fmt.Sprintf("%s-t%d.%d", payload, round, k)
								lines = append(lines, l)
								sev, tr := 1+k%6, tr
								go func() {
									defer func() { helpers <- struct{}{} }()
									tlogAt(0, tr, sev, l)
								}()
							}
							for k := 0; k < op.N-1+round; k++ {
								<-helpers
							}
							sort.Strings(lines)
							rc.Probe("tracer-shared-by-goroutines")
						} else {
							for k := 0; k < op.N-1+round; k++ {
								l := fmt.Sprintf("%s-t%d.%d", payload, round, k)
								lines = append(lines, l)
								tlogAt(0, tr, 1+k%6, l)
							}
						}
						tlogAt(0, tr, op.Sev, payload)
						c := &callRec{Prod: pi, Op: oi, Payload: payload, Sev: op.Sev, Pkg: op.Pkg, Inv: simrt.Seq(), Tracer: lines, IsSubmit: true, AnyOrder: op.Shared}
						if lines == nil {
							c.Tracer = []string{}
						}
						if round == 0 {
							c.AddInv, c.AddRet = addInv, addRet
						}
						s.calls = append(s.calls, c)
						tr.Submit()
						if round == 0 {
							inner.Submit()
						}
						c.Ret, c.Returned = simrt.Seq(), true
						rc.Probe("tracer-submitted")
					}
				}
			}
		}()
	}
	go func() {
		defer func() { done <- struct{}{} }()
		cur := s.init
		for _, c := range p.Ctrl {
			if c.Kind == "sleep" {
				time.Sleep(sleepLadder[c.Arg])
				continue
			}
			r := ctrlRec{Inv: simrt.Seq()}
			switch c.Kind {
			case "level":
				log.SetLogLevel(log.Severity(c.Level))
				cur.Global = c.Level
			case "pkg":
				m := map[string]log.Severity{}
				if c.A != 0 {
					m["pkga"] = log.Severity(c.A)
				}
				if c.B != 0 {
					m["pkgb"] = log.Severity(c.B)
				}
				log.SetPkgLevels(m)
				cur.Active, cur.A, cur.B = true, c.A, c.B
			case "unpkg":
				log.UnSetPkgLevels()
				cur.Active = false
			}
			r.Ret = simrt.Seq()
			r.After = cur
			s.ctrl = append(s.ctrl, r)
		}
	}()
	if p.ShutdownAfter >= 0 {
		time.Sleep(sleepLadder[p.ShutdownAfter])
	} else {
		for i := 0; i < len(p.Producers)+1; i++ {
			<-done
		}
	}
	s.shutInv = simrt.Seq()
	var ret2 uint64
	done2 := make(chan struct{})
	if p.Shutdown2 {
		go func() {
			log.Shutdown()
			ret2 = simrt.Seq()
			close(done2)
		}()
	}
	log.Shutdown()
	s.shutRet = simrt.Seq()
	if p.Shutdown2 {
		// whichever of the two calls returns first: everything logged before shutdown was requested is written by then
		<-done2
		if ret2 < s.shutRet {
			s.shutRet = ret2
		}
		rc.Probe("two-shutdown-callers")
	}
	s.shutReturned = true
	close(stopTrigger)
	simrt.AwaitQuiescence(time.Minute)
}

// possible level states during [inv, ret]
func (s *state) statesDuring(inv, ret uint64) []levelState {
	first := 0 // index into states: 0 = init, i+1 = after ctrl[i]
	for i, c := range s.ctrl {
		if c.Ret < inv {
			first = i + 1
		}
	}
	last := first
	for i, c := range s.ctrl {
		if c.Inv < ret && i+1 > last {
			last = i + 1
		}
	}
	var out []levelState
	for k := first; k <= last; k++ {
		if k == 0 {
			out = append(out, s.init)
		} else {
			out = append(out, s.ctrl[k-1].After)
		}
	}
	return out
}

func (H) Check(prop string, plan any, rc *simkit.RunCtx) {
	p := plan.(*LogPlan)
	s, _ := rc.Data.(*state)
	if s == nil {
		return
	}
	rc.H("sched=%v trigger=%d slow=%d producers=%d out=%d", p.Sched, p.Trigger, p.SlowAdapter, len(p.Producers), len(s.out))
	total := 0
	for _, o := range s.out {
		total += int(o.Dup) + 1
		if o.Dup > 0 {
			rc.Probe("merged-record")
		}
	}
	rc.H("occurrences=%d calls=%d", total, len(s.calls))
	if len(s.calls) > log.VerifSimBufferCap() {
		rc.Probe("more-lines-than-buffer")
	}
	if rc.Stats.StepCap {
		rc.Inconcl = "step-cap"
		return
	}
	if !s.shutReturned {
		note := ""
		if s.adapterPanicked && len(s.calls) >= log.VerifSimBufferCap() && strings.Contains(rc.Stats.StallInfo, "log/input.go") {
			note = " (the output adapter panicked while the buffer was full: the writer's manager reports the failure through the buffer that only the writer drains)"
		}
		if s.shutInv != 0 {
			rc.Fail("C20.shutdown-hang", "Shutdown never returned"+note, rc.Stats.StallInfo)
		} else if rc.Stats.Stalled {
			rc.Fail("C20.stall", "loggers blocked for ever before shutdown was requested"+note, rc.Stats.StallInfo)
		}
		return
	}
	// occurrences per payload, and per-producer order
	occ := map[string]int{}
	occBeforeShut := map[string]int{}
	lastOp := map[int]int{}
	for _, o := range s.out {
		n := int(o.Dup) + 1
		occ[o.Text] += n
		if o.Seq < s.shutRet {
			occBeforeShut[o.Text] += n
		}
		var pi, oi int
		if _, err := fmt.Sscanf(o.Text, "g%d-%d", &pi, &oi); err == nil && !strings.Contains(o.Text, "-t") {
			if prev, ok := lastOp[pi]; ok && oi < prev {
				rc.Fail("C20.order", "lines of one goroutine reached the adapter out of order", fmt.Sprintf("producer %d: op %d after op %d", pi, oi, prev))
				return
			}
			lastOp[pi] = oi
		} else if s.adapterPanicked && strings.HasPrefix(o.Text, "log: writer failed") {
			// the package's own report of the failed writer
		} else if !strings.HasPrefix(o.Text, "pre-") {
			rc.Fail("C20.foreign-line", "the adapter received a line nobody logged", o.Text)
			return
		}
	}
	type bounds struct{ lo, hi int }
	b := map[string]*bounds{}
	for i := 0; i < p.PreStart; i++ {
		b[fmt.Sprintf("pre-%d", i)] = &bounds{0, 1}
	}
	submits := map[string][]*callRec{}
	torn := map[string]bool{}
	tornOn := map[string]bool{}
	for _, c := range s.calls {
		bb := b[c.Payload]
		if bb == nil {
			bb = &bounds{}
			b[c.Payload] = bb
		}
		inWindow := c.Returned && c.Ret < s.shutInv && c.Inv > s.startRet
		if c.IsSubmit {
			submits[c.Payload] = append(submits[c.Payload], c)
			bb.hi++
			if inWindow {
				bb.lo++
			}
			continue
		}
		ret := c.Ret
		if !c.Returned {
			ret = ^uint64(0)
		}
		all, none := true, true
		for _, st := range s.statesDuring(c.Inv, ret) {
			if st.enabled(c.Pkg, c.Sev) {
				none = false
			} else {
				all = false
			}
		}
		if all && inWindow {
			// would a torn read (settings taken from different moments of the call) disable the line?
			sts := s.statesDuring(c.Inv, ret)
			for _, x := range sts {
				for _, y := range sts {
					for _, z := range sts {
						if !(levelState{Global: x.Global, Active: y.Active, A: z.A, B: z.B}).enabled(c.Pkg, c.Sev) {
							torn[c.Payload] = true
						}
					}
				}
			}
		}
		if none {
			// would a torn read (settings taken from different moments of the call) let the line through?
			sts := s.statesDuring(c.Inv, ret)
			for _, x := range sts {
				for _, y := range sts {
					for _, z := range sts {
						if (levelState{Global: x.Global, Active: y.Active, A: z.A, B: z.B}).enabled(c.Pkg, c.Sev) {
							tornOn[c.Payload] = true
						}
					}
				}
			}
		}
		switch {
		case none:
			rc.Probe("line-below-level")
		case all && inWindow:
			bb.lo++
			bb.hi++
		default:
			bb.hi++
			rc.Probe("line-ambiguous")
		}
	}
	if s.adapterPanicked {
		// after an adapter panic: how many enabled lines are missing altogether?
		deficit, first := 0, ""
		var payloads []string
		for payload := range b {
			payloads = append(payloads, payload)
		}
		sort.Strings(payloads)
		for _, payload := range payloads {
			if d := b[payload].lo - occ[payload]; d > 0 && !torn[payload] {
				// (lines that a mix of old and new level settings disables are the other listed finding)
				deficit += d
				if first == "" {
					first = payload
				}
			}
		}
		switch {
		case deficit == 1:
			rc.Fail("C20.lost", "an enabled line logged between Start and Shutdown was not handed to the adapter (exactly one line, in a run in which the adapter panicked once: the line the writer had read ahead is dropped together with the failed writer)", fmt.Sprintf("%s", first))
			return
		case deficit > 1:
			rc.Fail("C20.lost", "enabled lines logged between Start and Shutdown were not handed to the adapter after the adapter had panicked once (more than the one line read ahead)", fmt.Sprintf("%d lines, first %s", deficit, first))
			return
		}
		rc.Probe("adapter-panic-survived")
	}
	for payload, bb := range b {
		n := occ[payload]
		if n > bb.hi {
			if bb.hi == 0 {
				note := ""
				if tornOn[payload] {
					note = " (the global level and the per-package levels were both changed during the call; a mix of old and new settings enables the line)"
				}
				rc.Fail("C20.below-level-emitted", "a line below the level in force was handed to the adapter"+note, fmt.Sprintf("%s: %d occurrences", payload, n))
			} else {
				rc.Fail("C20.duplicated", "a line was handed to the adapter more often than it was logged", fmt.Sprintf("%s: %d occurrences, logged at most %d times", payload, n, bb.hi))
			}
			return
		}
		if n < bb.lo {
			note := ""
			if torn[payload] {
				note = " (the global level and the per-package levels were both changed during the call; a mix of old and new settings disables the line)"
			}
			rc.Fail("C20.lost", "an enabled line logged between Start and Shutdown was not handed to the adapter"+note, fmt.Sprintf("%s: %d occurrences, at least %d expected", payload, n, bb.lo))
			return
		}
		if occBeforeShut[payload] < bb.lo {
			rc.Fail("C20.shutdown-early", "Shutdown returned before everything logged before it had been written", fmt.Sprintf("%s: %d of %d written when Shutdown returned", payload, occBeforeShut[payload], bb.lo))
			return
		}
	}
	for text := range occ {
		if s.adapterPanicked && strings.HasPrefix(text, "log: writer failed") {
			continue
		}
		if b[text] == nil {
			rc.Fail("C20.foreign-line", "the adapter received a line nobody logged", text)
			return
		}
	}
	// the same text from two call sites: lines that are not identical are not merged; where both were handed over, the
	// adapter has seen two different call sites
	for _, tw := range s.twins {
		sites := map[string]bool{}
		n := 0
		for _, o := range s.out {
			if o.Text == tw {
				sites[o.Site] = true
				n += int(o.Dup) + 1
			}
		}
		if n >= 2 && len(sites) < 2 {
			rc.Fail("C20.merged-distinct", "lines that are not identical (same text, different call sites) were merged into one", fmt.Sprintf("%s: %d occurrences, call sites seen: %d", tw, n, len(sites)))
			return
		}
		if n >= 2 {
			rc.Probe("same-text-from-two-call-sites")
		}
	}
	// tracer submissions carry all collected lines
	usedSubmit := map[*callRec]bool{}
	for _, o := range s.out {
		cs := submits[o.Text]
		if cs == nil {
			if o.Tracer != nil {
				rc.Fail("C20.tracer-lines", "a plain line carries tracer lines", o.Text)
				return
			}
			continue
		}
		if o.Dup > 0 {
			rc.Fail("C20.tracer-merged", "tracer submissions were merged into one line although each carries its own collected lines", fmt.Sprintf("%s x%d", o.Text, o.Dup+1))
			return
		}
		// several submissions may end in the same line: each output is matched with one of them that has not been
		// matched yet and carries exactly these lines
		matched := false
		for _, c := range cs {
			got := o.Tracer
			if c.AnyOrder {
				got = append([]string(nil), got...)
				sort.Strings(got)
			}
			if !usedSubmit[c] && o.Tracer != nil && strings.Join(got, "|") == strings.Join(c.Tracer, "|") {
				usedSubmit[c] = true
				matched = true
				noTrace := c.AddRet != 0
				for _, st := range s.statesDuring(c.AddInv, c.AddRet) {
					if st.enabled(c.Pkg, 1) {
						noTrace = false
					}
				}
				if noTrace {
					// the trace level was not in force for the origin at any moment of the request for the tracer
					rc.Fail("C20.below-level-emitted", "a context tracer was handed out and its submission emitted although the trace level was not in force for the origin", o.Text)
					return
				}
				break
			}
		}
		if !matched {
			var want []string
			for _, c := range cs {
				want = append(want, fmt.Sprint(c.Tracer))
			}
			rc.Fail("C20.tracer-lines", "a tracer submission does not carry exactly the lines collected on it", fmt.Sprintf("%s: got %v want one of %s", o.Text, o.Tracer, strings.Join(want, " / ")))
			return
		}
	}
}

func (H) Shrink(prop string, plan any) []any {
	p := plan.(*LogPlan)
	var out []any
	clone := func() *LogPlan {
		q := *p
		q.Producers = nil
		for _, ops := range p.Producers {
			q.Producers = append(q.Producers, append([]LogOp(nil), ops...))
		}
		q.Ctrl = append([]CtrlOp(nil), p.Ctrl...)
		return &q
	}
	for i := range p.Producers {
		if len(p.Producers) > 1 {
			q := clone()
			q.Producers = append(q.Producers[:i], q.Producers[i+1:]...)
			out = append(out, q)
		}
	}
	if len(p.Ctrl) > 0 {
		q := clone()
		q.Ctrl = nil
		out = append(out, q)
		for i := range p.Ctrl {
			q := clone()
			q.Ctrl = append(q.Ctrl[:i], q.Ctrl[i+1:]...)
			out = append(out, q)
		}
	}
	for pi, ops := range p.Producers {
		for oi := range ops {
			if len(ops) > 1 {
				q := clone()
				q.Producers[pi] = append(q.Producers[pi][:oi], q.Producers[pi][oi+1:]...)
				out = append(out, q)
			}
		}
	}
	for pi, ops := range p.Producers {
		for oi, op := range ops {
			if op.N > 2 {
				q := clone()
				q.Producers[pi][oi].N = op.N / 2
				out = append(out, q)
				q = clone()
				q.Producers[pi][oi].N = op.N - 1
				out = append(out, q)
			}
		}
	}
	if p.PreStart > 0 {
		q := clone()
		q.PreStart = 0
		out = append(out, q)
	}
	if p.SlowAdapter > 0 {
		q := clone()
		q.SlowAdapter = 0
		out = append(out, q)
	}
	if p.Sched {
		q := clone()
		q.Sched = false
		q.Trigger = -1
		out = append(out, q)
	}
	if p.ShutdownAfter >= 0 {
		q := clone()
		q.ShutdownAfter = -1
		out = append(out, q)
	}
	return out
}
