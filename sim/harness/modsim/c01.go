package modsim

import (
	"errors"
	"fmt"
	"math/rand/v2"
	"sort"
	"strings"
	"time"

	"github.com/safing/portbase/modules"
	"github.com/safing/portbase/verifsim/simkit"
	"github.com/safing/portbase/verifsim/simrt"
)

// C01Plan is one generated lifecycle scenario.
type C01Plan struct {
	Mgmt    bool       `json:"mgmt"`
	Mods    []C01Mod   `json:"mods"`
	Anomaly string     `json:"anomaly,omitempty"` // cycle | missing
	Rounds  []C01Round `json:"rounds,omitempty"`
	// EarlyShutdown k>0: another goroutine calls Shutdown as soon as the start routine of module k-1 begins, i.e.
	// while Start is still starting modules
	EarlyShutdown int `json:"early_shutdown,omitempty"`
	// Shutdown2: a second caller invokes Shutdown while the first call is in progress; when either call returns no
	// module is online
	Shutdown2 bool `json:"shutdown2,omitempty"`
}

// C01Mod describes one module.
type C01Mod struct {
	Deps    []int  `json:"deps,omitempty"`
	Enabled bool   `json:"enabled,omitempty"`
	Dur     [3]int `json:"dur"`  // prep,start,stop: index into durLadder
	Fail    [3]int `json:"fail"` // 0 ok, 1 error, 2 panic, 3 clean exit (prep only)
	FailInv [3]int `json:"fail_inv"`
}

// C01Round is one management round.
type C01Round struct {
	Toggle []int `json:"toggle,omitempty"`
	Twice  bool  `json:"twice,omitempty"` // two concurrent ManageModules calls
	// During: modules whose enabled flag another goroutine flips while the pass of this round runs (Enable and
	// Disable are documented to be callable at any time; the next pass applies them)
	During []int `json:"during,omitempty"`
}

func genC01(rng *rand.Rand, tier string) *C01Plan {
	maxMods := 8
	if tier == "thorough" {
		maxMods = 12
	}
	p := &C01Plan{}
	n := 1 + rng.IntN(maxMods)
	p.Mgmt = rng.IntN(2) == 0
	density := []float64{0, 0.15, 0.3, 0.6, 1}[rng.IntN(5)]
	chain := rng.IntN(6) == 0
	star := rng.IntN(8) == 0
	failRate := []float64{0, 0, 0.08, 0.2}[rng.IntN(4)]
	slow := rng.IntN(3) > 0
	for i := 0; i < n; i++ {
		m := C01Mod{}
		for j := 0; j < i; j++ {
			switch {
			case chain:
				if j == i-1 {
					m.Deps = append(m.Deps, j)
				}
			case star:
				if j == 0 {
					m.Deps = append(m.Deps, j)
				}
			default:
				if rng.Float64() < density {
					m.Deps = append(m.Deps, j)
				}
			}
		}
		m.Enabled = rng.IntN(3) == 0
		for ph := 0; ph < 3; ph++ {
			if slow {
				m.Dur[ph] = rng.IntN(len(durLadder))
			} else if rng.IntN(4) == 0 {
				m.Dur[ph] = rng.IntN(3)
			}
			if rng.Float64() < failRate {
				m.Fail[ph] = 1 + rng.IntN(2)
				if ph == 0 && rng.IntN(6) == 0 {
					m.Fail[ph] = 3
				}
				if rng.IntN(3) == 0 {
					m.FailInv[ph] = rng.IntN(3)
				}
			}
		}
		p.Mods = append(p.Mods, m)
	}
	switch rng.IntN(25) {
	case 0:
		if n >= 2 {
			p.Anomaly = "cycle"
		}
	case 1:
		p.Anomaly = "missing"
	}
	nr := rng.IntN(7)
	if !p.Mgmt {
		nr = rng.IntN(2)
	}
	for r := 0; r < nr; r++ {
		rd := C01Round{Twice: rng.IntN(5) == 0}
		k := 1 + rng.IntN(3)
		for i := 0; i < k; i++ {
			rd.Toggle = append(rd.Toggle, rng.IntN(n))
		}
		if !rd.Twice && rng.IntN(4) == 0 {
			for i, k := 0, 1+rng.IntN(2); i < k; i++ {
				rd.During = append(rd.During, rng.IntN(n))
			}
		}
		p.Rounds = append(p.Rounds, rd)
	}
	if rng.IntN(8) == 0 {
		p.EarlyShutdown = 1 + rng.IntN(len(p.Mods))
		p.Rounds = nil
	}
	p.Shutdown2 = rng.IntN(5) == 0
	return p
}

type c01State struct {
	p    *C01Plan
	rc   *simkit.RunCtx
	mods []*modules.Module
	evs  []ev
	inv  [][3]int
	// results of API calls
	startErr      error
	shutdownErr   error
	startT, stopT time.Duration
	anyFailure    bool          // some lifecycle routine failed or an API call returned an error so far
	earlyDone     chan struct{} // closed when the Shutdown issued during Start has returned and was checked
}

var phaseNames = [3]string{"prep", "start", "stop"}

func (s *c01State) callback(i, ph int) func() error {
	return func() error {
		inv := s.inv[i][ph]
		s.inv[i][ph]++
		s.evs = append(s.evs, ev{Seq: simrt.Seq(), T: simrt.Now(), Mod: i, Phase: phaseNames[ph], Kind: "begin", Inv: inv})
		m := s.p.Mods[i]
		if ph == 1 && inv == 0 && s.p.EarlyShutdown == i+1 && s.earlyDone == nil {
			s.earlyDone = make(chan struct{})
			go func() {
				s.shutdownErr = modules.Shutdown()
				s.rc.H("early Shutdown err=%v", s.shutdownErr != nil)
				s.afterShutdown()
				close(s.earlyDone)
			}()
			s.rc.Probe("shutdown-during-start")
		}
		if d := durLadder[m.Dur[ph]]; d > 0 {
			time.Sleep(d)
		}
		fail := 0
		if m.Fail[ph] != 0 && m.FailInv[ph] == inv {
			fail = m.Fail[ph]
		}
		s.evs = append(s.evs, ev{Seq: simrt.Seq(), T: simrt.Now(), Mod: i, Phase: phaseNames[ph], Kind: "end", OK: fail == 0, Inv: inv})
		switch fail {
		case 1:
			s.rc.Fault(phaseNames[ph] + "-error")
			return fmt.Errorf("injected %s error in %s", phaseNames[ph], modName(i))
		case 2:
			s.rc.Fault(phaseNames[ph] + "-panic")
			panic(fmt.Sprintf("injected %s panic in %s", phaseNames[ph], modName(i)))
		case 3:
			s.rc.Fault("prep-cleanexit")
			return modules.ErrCleanExit
		}
		return nil
	}
}

func (s *c01State) wanted() map[int]bool {
	w := map[int]bool{}
	if !s.p.Mgmt {
		for i := range s.p.Mods {
			w[i] = true
		}
		return w
	}
	var mark func(i int)
	mark = func(i int) {
		if w[i] {
			return
		}
		w[i] = true
		for _, d := range s.p.Mods[i].Deps {
			mark(d)
		}
	}
	for i, m := range s.mods {
		if m.Enabled() {
			mark(i)
		}
	}
	return w
}

func (s *c01State) checkOnline(after string) {
	w := s.wanted()
	for i, m := range s.mods {
		if m.Online() != w[i] {
			hist := "clean-history"
			if s.anyFailure {
				hist = "after-earlier-failure"
			}
			s.rc.Fail("C01.wanted-set", fmt.Sprintf("online set differs from wanted set after nil return (%s)", hist),
				fmt.Sprintf("after %s: module %s online=%v wanted=%v", after, modName(i), m.Online(), w[i]))
			return
		}
	}
}

func (s *c01State) okStarts(i int) int {
	n := 0
	for _, e := range s.evs {
		if e.Mod == i && e.Phase == "start" && e.Kind == "end" && e.OK {
			n++
		}
	}
	return n
}

func (s *c01State) stopBegins(i int) int {
	n := 0
	for _, e := range s.evs {
		if e.Mod == i && e.Phase == "stop" && e.Kind == "begin" {
			n++
		}
	}
	return n
}

// lastStartFailed reports whether the latest start run of module i failed
// (error, panic) or is unfinished.
func (s *c01State) lastStartFailed(i int) bool {
	var last *ev
	for k := range s.evs {
		e := &s.evs[k]
		if e.Mod == i && e.Phase == "start" {
			last = e
		}
	}
	return last != nil && !(last.Kind == "end" && last.OK)
}

func (s *c01State) context(i int) string {
	// classify why module i might have been left behind
	for j, m := range s.p.Mods {
		for _, d := range m.Deps {
			if d == i && s.lastStartFailed(j) {
				return "a module depending on it failed to start"
			}
		}
	}
	if s.lastStartFailed(i) {
		return "its own start failed or was unfinished"
	}
	for j := range s.p.Mods {
		if j != i && s.lastStartFailed(j) {
			return "an unrelated module failed to start"
		}
	}
	for j := range s.p.Mods {
		for ph := 0; ph < 3; ph++ {
			if s.p.Mods[j].Fail[ph] != 0 && s.inv[j][ph] > s.p.Mods[j].FailInv[ph] {
				return "after a " + phaseNames[ph] + " failure"
			}
		}
	}
	return "no lifecycle failure"
}

func execC01(p *C01Plan, rc *simkit.RunCtx) {
	s := &c01State{p: p, rc: rc, inv: make([][3]int, len(p.Mods))}
	rc.Data = s
	s.startT, s.stopT = modules.VerifSimTimeouts()
	for i, m := range p.Mods {
		var deps []string
		for _, d := range m.Deps {
			deps = append(deps, modName(d))
		}
		if p.Anomaly == "cycle" && len(p.Mods) >= 2 {
			// m00 -> last -> m00
			if i == 0 {
				deps = append(deps, modName(len(p.Mods)-1))
			}
			if i == len(p.Mods)-1 {
				deps = append(deps, modName(0))
			}
		}
		if p.Anomaly == "missing" && i == len(p.Mods)-1 {
			deps = append(deps, "nonexistent")
		}
		s.mods = append(s.mods, modules.Register(modName(i), s.callback(i, 0), s.callback(i, 1), s.callback(i, 2), deps...))
	}
	if p.Mgmt {
		modules.EnableModuleManagement(nil)
		for i, m := range p.Mods {
			if m.Enabled {
				s.mods[i].Enable()
			}
		}
	}
	s.startErr = modules.Start()
	rc.H("Start err=%v", s.startErr != nil)
	if s.startErr == nil {
		if p.Anomaly == "missing" || (p.Anomaly == "cycle" && len(p.Mods) >= 2) {
			rc.Fail("C01.anomaly-accepted", "Start accepted a dependency "+p.Anomaly, "")
			return
		}
		if s.earlyDone == nil {
			s.checkOnline("Start")
		}
		for ri, rd := range p.Rounds {
			if rc.Failed() {
				return
			}
			for _, t := range rd.Toggle {
				if t < len(s.mods) {
					s.mods[t].SetEnabled(!s.mods[t].Enabled())
				}
			}
			if rd.Twice {
				done := make(chan error, 2)
				pass := func(n int) {
					err := modules.ManageModules()
					if err == nil && !rc.Failed() {
						// nothing is toggled while the two passes run: each one that reports success must
						// leave exactly the wanted modules online
						s.checkOnline(fmt.Sprintf("concurrent ManageModules round %d (at the return of pass %d)", ri, n))
					}
					done <- err
				}
				go pass(1)
				go pass(2)
				e1, e2 := <-done, <-done
				rc.H("Manage2 %d err=%v,%v", ri, e1 != nil, e2 != nil)
				if e1 != nil || e2 != nil {
					s.anyFailure = true
				} else {
					s.checkOnline(fmt.Sprintf("concurrent ManageModules round %d", ri))
				}
				rc.Probe("concurrent-manage")
			} else if len(rd.During) > 0 {
				// flags change while the pass runs: which of them this pass still sees is open, so the wanted set
				// is checked after a following, undisturbed pass only; the ordering clauses hold throughout
				flipped := make(chan struct{})
				go func() {
					for _, t := range rd.During {
						if t < len(s.mods) {
							s.mods[t].SetEnabled(!s.mods[t].Enabled())
						}
					}
					close(flipped)
				}()
				err := modules.ManageModules()
				<-flipped
				rc.H("Manage %d (flags flipped meanwhile) err=%v", ri, err != nil)
				rc.Probe("enable-during-pass")
				if err == nil {
					err = modules.ManageModules()
					rc.H("Manage %d (follow-up) err=%v", ri, err != nil)
				} else {
					rc.Probe("enable-during-pass-error")
					// a pass that gave up may have left work undone; the next one completes it
					err = modules.ManageModules()
					rc.H("Manage %d (follow-up after error) err=%v", ri, err != nil)
				}
				if err != nil {
					s.anyFailure = true
				} else {
					s.checkOnline(fmt.Sprintf("ManageModules round %d (pass following flag changes)", ri))
				}
			} else {
				err := modules.ManageModules()
				rc.H("Manage %d err=%v", ri, err != nil)
				if err != nil {
					s.anyFailure = true
				} else {
					s.checkOnline(fmt.Sprintf("ManageModules round %d", ri))
				}
			}
		}
	} else {
		s.anyFailure = true
		if errors.Is(s.startErr, modules.ErrCleanExit) {
			rc.Probe("clean-exit")
		} else if p.Mgmt && p.Anomaly == "" && s.earlyDone == nil {
			// Start failed, the program carries on and lets the management react to flag changes: what a pass can
			// still achieve is open (modules that were never prepared stay dead), so only the ordering clauses and
			// the Shutdown clauses are judged from here on
			for ri, rd := range p.Rounds {
				for _, t := range rd.Toggle {
					if t < len(s.mods) {
						s.mods[t].SetEnabled(!s.mods[t].Enabled())
					}
				}
				err := modules.ManageModules()
				rc.H("Manage %d (after failed Start) err=%v", ri, err != nil)
				rc.Probe("manage-after-failed-start")
			}
		}
	}
	if rc.Failed() {
		return
	}
	if s.earlyDone != nil {
		<-s.earlyDone
	} else {
		var second chan struct{}
		if p.Shutdown2 {
			second = make(chan struct{})
			go func() {
				defer close(second)
				err := modules.Shutdown()
				rc.H("Shutdown (second caller) err=%v", err != nil)
				rc.Probe("second-shutdown-caller")
				for i, m := range s.mods {
					if m.Online() && !rc.Failed() {
						rc.Fail("C01.online-at-shutdown-return", "module online when Shutdown returned: "+s.context(i),
							fmt.Sprintf("module %s is online after Shutdown returned to a second caller (err=%v)", modName(i), err))
					}
				}
			}()
		}
		s.shutdownErr = modules.Shutdown()
		rc.H("Shutdown err=%v", s.shutdownErr != nil)
		if second != nil {
			// which of the two calls did the work is open: the stop counts are judged when both have returned
			for i, m := range s.mods {
				if m.Online() && !rc.Failed() {
					rc.Fail("C01.online-at-shutdown-return", "module online when Shutdown returned: "+s.context(i),
						fmt.Sprintf("module %s is online after Shutdown returned (err=%v)", modName(i), s.shutdownErr))
				}
			}
			<-second
		}
		if !rc.Failed() {
			s.afterShutdown()
		}
	}
	if rc.Failed() {
		return
	}
	// let in-flight lifecycle routines finish
	simrt.AwaitQuiescence(10 * time.Minute)
	for i, m := range s.mods {
		if m.Online() {
			rc.Fail("C01.online-after-shutdown", "module came online after Shutdown returned: "+s.context(i),
				fmt.Sprintf("module %s is online after Shutdown returned and the system went quiet", modName(i)))
			return
		}
	}
}

// afterShutdown checks the last sentence of the statement at the moment Shutdown returns.
func (s *c01State) afterShutdown() {
	rc := s.rc
	// clause 5 at return
	for i, m := range s.mods {
		if m.Online() {
			rc.Fail("C01.online-at-shutdown-return", "module online when Shutdown returned: "+s.context(i),
				fmt.Sprintf("module %s is online after Shutdown returned (err=%v)", modName(i), s.shutdownErr))
			return
		}
	}
	for i := range s.mods {
		if a, b := s.okStarts(i), s.stopBegins(i); a != b {
			rc.Fail("C01.stop-count", "stop invocations differ from successful starts when Shutdown returned: "+s.context(i),
				fmt.Sprintf("module %s: %d successful start runs, %d stop invocations (Shutdown err=%v)", modName(i), a, b, s.shutdownErr))
			return
		}
	}
}

func checkC01(p *C01Plan, rc *simkit.RunCtx) {
	s, _ := rc.Data.(*c01State)
	if s == nil {
		return
	}
	evs := s.evs
	sort.SliceStable(evs, func(i, j int) bool { return evs[i].Seq < evs[j].Seq })
	for _, e := range evs {
		rc.H("%s %s %s ok=%v", modName(e.Mod), e.Phase, e.Kind, e.OK || e.Kind == "begin")
	}
	if rc.Stats.Stalled {
		rc.Fail("C01.stall", "lifecycle call never returned", rc.Stats.StallInfo)
		return
	}
	if rc.Stats.StepCap {
		rc.Inconcl = "step-cap"
		return
	}
	// out of scope: a callback that (through scheduling delay) ran into a timeout
	begin := map[[3]int]ev{}
	phIdx := map[string]int{"prep": 0, "start": 1, "stop": 2}
	for _, e := range evs {
		k := [3]int{e.Mod, phIdx[e.Phase], e.Inv}
		if e.Kind == "begin" {
			begin[k] = e
			continue
		}
		lim := s.startT
		if e.Phase == "stop" {
			lim = s.stopT
		}
		if e.T-begin[k].T >= lim-10*time.Second {
			rc.Inconcl = "callback-near-timeout"
			return
		}
	}
	revDeps := make([][]int, len(p.Mods))
	for i, m := range p.Mods {
		for _, d := range m.Deps {
			revDeps[d] = append(revDeps[d], i)
		}
	}
	lastBefore := func(mod int, phase, kind string, seq uint64) *ev {
		var r *ev
		for k := range evs {
			e := &evs[k]
			if e.Seq >= seq {
				break
			}
			if e.Mod == mod && e.Phase == phase && e.Kind == kind {
				r = e
			}
		}
		return r
	}
	var firstStart uint64
	prepCount := map[int]int{}
	for _, e := range evs {
		if e.Kind != "begin" {
			continue
		}
		switch e.Phase {
		case "prep":
			prepCount[e.Mod]++
			if prepCount[e.Mod] > 1 {
				rc.Fail("C01.prep-once", "prep ran more than once for a module", modName(e.Mod))
				return
			}
			if firstStart != 0 {
				rc.Fail("C01.prep-before-start", "prep began after a start routine began", modName(e.Mod))
				return
			}
			for _, d := range p.Mods[e.Mod].Deps {
				pe := lastBefore(d, "prep", "end", e.Seq)
				if pe == nil || !pe.OK {
					rc.Fail("C01.prep-order", "prep began before the prep of a dependency finished successfully",
						fmt.Sprintf("%s prep began; dependency %s prep not finished ok", modName(e.Mod), modName(d)))
					return
				}
			}
		case "start":
			if firstStart == 0 {
				firstStart = e.Seq
			}
			for _, d := range p.Mods[e.Mod].Deps {
				se := lastBefore(d, "start", "end", e.Seq)
				sb := lastBefore(d, "start", "begin", e.Seq)
				if se == nil || !se.OK || (sb != nil && sb.Seq > se.Seq) {
					rc.Fail("C01.start-order", "start began before a dependency finished starting successfully",
						fmt.Sprintf("%s start began; dependency %s has not finished starting successfully", modName(e.Mod), modName(d)))
					return
				}
				if st := lastBefore(d, "stop", "begin", e.Seq); st != nil && st.Seq > se.Seq {
					rc.Fail("C01.start-order", "start began while a dependency was stopping or stopped",
						fmt.Sprintf("%s start began; dependency %s stop began after its last start", modName(e.Mod), modName(d)))
					return
				}
			}
		case "stop":
			for _, r := range revDeps[e.Mod] {
				se := lastBefore(r, "start", "end", e.Seq)
				// find last *successful* start of r
				var okStart *ev
				for k := range evs {
					x := &evs[k]
					if x.Seq >= e.Seq {
						break
					}
					if x.Mod == r && x.Phase == "start" && x.Kind == "end" && x.OK {
						okStart = x
					}
				}
				_ = se
				if okStart == nil {
					continue
				}
				stEnd := lastBefore(r, "stop", "end", e.Seq)
				if stEnd == nil || stEnd.Seq < okStart.Seq {
					rc.Fail("C01.stop-order", "stop began before a started dependent module had completely stopped",
						fmt.Sprintf("%s stop began; dependent %s was started and its stop routine had not returned", modName(e.Mod), modName(r)))
					return
				}
			}
			// a stop needs an unmatched successful start
			ok, sb := 0, 0
			for _, x := range evs {
				if x.Seq >= e.Seq {
					break
				}
				if x.Mod == e.Mod && x.Phase == "start" && x.Kind == "end" && x.OK {
					ok++
				}
				if x.Mod == e.Mod && x.Phase == "stop" && x.Kind == "begin" {
					sb++
				}
			}
			if sb+1 > ok {
				rc.Fail("C01.stop-without-start", "stop routine invoked without a matching successful start", modName(e.Mod))
				return
			}
		}
	}
	// start runs that finished successfully only after Shutdown had returned
	if s.shutdownErr == nil || true {
		for i := range p.Mods {
			if a, b := s.okStarts(i), s.stopBegins(i); a != b && !rc.Failed() {
				rc.Fail("C01.unstopped-start", "a start run that succeeded was never followed by a stop: "+s.context(i),
					fmt.Sprintf("module %s: %d successful start runs, %d stop invocations at end of run", modName(i), a, b))
				return
			}
		}
	}
}

func shrinkC01(p *C01Plan) []any {
	var out []any
	clone := func() *C01Plan {
		q := &C01Plan{Mgmt: p.Mgmt, Anomaly: p.Anomaly, EarlyShutdown: p.EarlyShutdown, Shutdown2: p.Shutdown2}
		for _, m := range p.Mods {
			m2 := m
			m2.Deps = append([]int(nil), m.Deps...)
			q.Mods = append(q.Mods, m2)
		}
		for _, r := range p.Rounds {
			q.Rounds = append(q.Rounds, C01Round{Toggle: append([]int(nil), r.Toggle...), Twice: r.Twice, During: append([]int(nil), r.During...)})
		}
		return q
	}
	// drop all rounds, then single rounds
	if len(p.Rounds) > 0 {
		q := clone()
		q.Rounds = nil
		out = append(out, q)
		for i := range p.Rounds {
			q := clone()
			q.Rounds = append(q.Rounds[:i], q.Rounds[i+1:]...)
			out = append(out, q)
		}
	}
	// remove a module (re-index dependencies)
	for i := len(p.Mods) - 1; i >= 0 && len(p.Mods) > 1; i-- {
		q := clone()
		q.Mods = append(q.Mods[:i], q.Mods[i+1:]...)
		for k := range q.Mods {
			var nd []int
			for _, d := range q.Mods[k].Deps {
				switch {
				case d == i:
				case d > i:
					nd = append(nd, d-1)
				default:
					nd = append(nd, d)
				}
			}
			q.Mods[k].Deps = nd
		}
		for k := range q.Rounds {
			var nt []int
			for _, t := range q.Rounds[k].Toggle {
				switch {
				case t == i:
				case t > i:
					nt = append(nt, t-1)
				default:
					nt = append(nt, t)
				}
			}
			q.Rounds[k].Toggle = nt
			var nd []int
			for _, t := range q.Rounds[k].During {
				switch {
				case t == i:
				case t > i:
					nd = append(nd, t-1)
				default:
					nd = append(nd, t)
				}
			}
			q.Rounds[k].During = nd
		}
		switch {
		case q.EarlyShutdown == i+1:
			continue
		case q.EarlyShutdown > i+1:
			q.EarlyShutdown--
		}
		out = append(out, q)
	}
	if p.Mgmt {
		q := clone()
		q.Mgmt = false
		out = append(out, q)
	}
	if p.Anomaly != "" {
		q := clone()
		q.Anomaly = ""
		out = append(out, q)
	}
	for i, m := range p.Mods {
		for di := range m.Deps {
			q := clone()
			q.Mods[i].Deps = append(q.Mods[i].Deps[:di], q.Mods[i].Deps[di+1:]...)
			out = append(out, q)
		}
		for ph := 0; ph < 3; ph++ {
			if m.Fail[ph] != 0 {
				q := clone()
				q.Mods[i].Fail[ph] = 0
				out = append(out, q)
				if m.Fail[ph] != 1 {
					q := clone()
					q.Mods[i].Fail[ph] = 1
					out = append(out, q)
				}
			}
			if m.Dur[ph] != 0 {
				q := clone()
				q.Mods[i].Dur[ph] = 0
				out = append(out, q)
			}
		}
		if m.Enabled {
			q := clone()
			q.Mods[i].Enabled = false
			out = append(out, q)
		}
	}
	for ri, r := range p.Rounds {
		if r.Twice {
			q := clone()
			q.Rounds[ri].Twice = false
			out = append(out, q)
		}
		if len(r.During) > 0 {
			q := clone()
			q.Rounds[ri].During = r.During[1:]
			out = append(out, q)
		}
	}
	return out
}

var _ = strings.Join
