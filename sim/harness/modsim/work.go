package modsim

import (
	"context"
	"errors"
	"fmt"
	"math/rand/v2"
	"reflect"
	"runtime"
	"sort"
	"strings"
	"time"

	"github.com/safing/portbase/modules"
	"github.com/safing/portbase/verifsim/simkit"
	"github.com/safing/portbase/verifsim/simrt"
)

// WorkPlan: modules with managed work that are then stopped (C05), optionally
// with panicking executions (C06).
type WorkPlan struct {
	Mgmt        bool    `json:"mgmt,omitempty"`
	Mods        []WMod  `json:"mods"`
	Items       []WItem `json:"items"`
	Settle      int     `json:"settle"`                 // ladder index: how long the client waits before stopping
	StopMgmt    []int   `json:"stop_mgmt,omitempty"`    // with Mgmt: modules disabled before ManageModules (empty: Shutdown directly)
	Late        bool    `json:"late,omitempty"`         // some drain delays exceed the stop timeout
	Post        bool    `json:"post,omitempty"`         // after the stop: submit work to stopped modules
	Limit       int     `json:"limit"`                  // microtask concurrency limit
	Requeue     bool    `json:"requeue,omitempty"`      // C06: re-queue a task after its execution panicked
	RequeueFast bool    `json:"requeue_fast,omitempty"` // ... as soon as every task has run once, and expect the re-run promptly
	NoChan      bool    `json:"no_chan,omitempty"`      // C06: no error reporting channel is set (and stderr reporting is off): only the returned errors are checked
	Shutdown2   bool    `json:"shutdown2,omitempty"`    // a second caller invokes Shutdown while the first call is in progress; the clauses about the return of Shutdown hold for both
	Failing     int     `json:"failing,omitempty"`      // C05: module Failing-1 reports a warning and resolves it while the stop is under way, with a failure notification function installed that takes a moment (the notification runs as a worker of the module)
	Flip        int     `json:"flip,omitempty"`         // C06 with management: module Flip-1 is disabled and, FlipDur later, enabled again without a management pass in between (no effect on the running module)
	FlipDur     int     `json:"flip_dur,omitempty"`     // flipLadder index
	Warm        bool    `json:"warm,omitempty"`         // C05 with management: all modules are stopped and started once before the workload, with a worker started on each stopped module that outlives the restart
}

// WMod is a module of a WorkPlan.
type WMod struct {
	Deps      []int  `json:"deps,omitempty"`
	PrepDur   int    `json:"prep_dur,omitempty"` // durLadder index (0-2): the prep routine takes a moment
	StartDur  int    `json:"start_dur,omitempty"`
	StopDur   int    `json:"stop_dur,omitempty"`
	LifePanic [3]int `json:"life_panic,omitempty"` // C06: panic kind in prep/start/stop (0 none)
	StopErr   bool   `json:"stop_err,omitempty"`   // the stop routine returns an error
	StartFail bool   `json:"start_fail,omitempty"` // C05 with management: the first start attempt fails (after the work launched from it has begun); a second management pass starts the module
}

// WItem is one piece of managed work.
type WItem struct {
	Mod        int    `json:"mod"`
	Kind       string `json:"kind"`                  // worker runworker svc task tasksched mthigh mtmed mtlow mtrunhigh mtrunmed mtrunlow sighigh sigmed siglow hook
	AtStart    bool   `json:"at_start,omitempty"`    // launched from the module's start routine
	PanicTwice bool   `json:"panic_twice,omitempty"` // the second invocation (restart of a service worker, re-run of a task) panics again, with the same value
	Dur        int    `json:"dur"`                   // durLadder index; -1 = runs until cancelled
	Drain      int    `json:"drain"`                 // drainLadder index: keeps running that long after seeing the cancellation
	Ret        int    `json:"ret,omitempty"`         // 0 nil, 1 ctx error, 2 other error, 3 restart-now (svc)
	Panic      int    `json:"panic,omitempty"`       // C06 panic kind, 0 none
	EvMod      int    `json:"ev_mod,omitempty"`      // hook: module on which the event is triggered
	Done       int    `json:"done,omitempty"`        // signal variants: how many times done is called (>=1)
	Backoff    int    `json:"backoff,omitempty"`     // svc: backoffLadder index of the restart back-off
}

var flipLadder = []time.Duration{2 * time.Second, 30 * time.Second, 2 * time.Minute}

var backoffLadder = []time.Duration{time.Second, 20 * time.Second, 50 * time.Second, 0 /* the library's default */}

var drainLadder = []time.Duration{0, time.Millisecond, time.Second, 30 * time.Second, 55 * time.Second, 61 * time.Second, 10 * time.Minute}

var itemKinds = []string{"worker", "runworker", "svc", "task", "tasksched", "mthigh", "mtmed", "mtlow", "mtrunhigh", "mtrunmed", "mtrunlow", "sighigh", "sigmed", "siglow", "hook"}

const nPanicKinds = 10

type customPanic struct {
	A int
	B string
}

func panicValue(kind int, tag string) any {
	switch kind {
	case 1:
		return errors.New("injected error panic " + tag)
	case 2:
		return "injected string panic " + tag
	case 3:
		return customPanic{A: 7, B: tag}
	case 4:
		return &modules.ModuleError{Message: "injected module error panic " + tag}
	case 5:
		return nil // panic(nil)
	case 7:
		return context.Canceled
	case 8:
		return fmt.Errorf("wrapped: %w", context.Canceled)
	case 9:
		var e *derefErr // an error-typed nil pointer: calling Error on it panics
		return e
	case 10:
		return spitefulErr{tag}
	}
	return nil
}

type derefErr struct{ msg string }

func (e *derefErr) Error() string { return e.msg }

type spitefulErr struct{ tag string }

func (e spitefulErr) Error() string { panic("Error method panics " + e.tag) }

func isSig(kind string) bool { return kind == "sighigh" || kind == "sigmed" || kind == "siglow" }

func doPanic(kind int, tag string) {
	if kind == 6 {
		var s []int
		_ = s[len(tag)] // runtime error: index out of range
	}
	panic(panicValue(kind, tag))
}

func genWork(rng *rand.Rand, tier, prop string) *WorkPlan {
	p := &WorkPlan{}
	n := 1 + rng.IntN(4)
	if tier == "thorough" {
		n = 1 + rng.IntN(6)
	}
	p.Mgmt = rng.IntN(3) == 0
	for i := 0; i < n; i++ {
		m := WMod{}
		for j := 0; j < i; j++ {
			if rng.IntN(3) == 0 {
				m.Deps = append(m.Deps, j)
			}
		}
		if rng.IntN(3) == 0 {
			m.StartDur = rng.IntN(4)
		}
		if rng.IntN(3) == 0 {
			m.PrepDur = rng.IntN(3)
		}
		if rng.IntN(2) == 0 {
			m.StopDur = rng.IntN(len(durLadder))
		}
		if prop == "C06" && rng.IntN(12) == 0 {
			m.LifePanic[rng.IntN(3)] = 1 + rng.IntN(nPanicKinds)
		}
		if rng.IntN(8) == 0 {
			m.StopErr = true
		}
		if prop == "C05" && rng.IntN(12) == 0 {
			// a stop routine that ends in a panic has returned as well
			m.LifePanic[2] = 1 + rng.IntN(4)
		}
		p.Mods = append(p.Mods, m)
	}
	p.Late = (prop == "C05" && rng.IntN(6) == 0) || (prop == "C06" && rng.IntN(10) == 0)
	p.Post = rng.IntN(2) == 0
	p.Limit = 2 + rng.IntN(5)
	p.Settle = rng.IntN(len(durLadder))
	p.Requeue = prop == "C06"
	p.NoChan = prop == "C06" && rng.IntN(6) == 0
	p.RequeueFast = prop == "C06" && rng.IntN(2) == 0
	ni := rng.IntN(7)
	if tier == "thorough" {
		ni = rng.IntN(12)
	}
	// swarm: restrict the kinds used in this run
	var kinds []string
	for _, k := range itemKinds {
		if rng.IntN(3) != 0 {
			kinds = append(kinds, k)
		}
	}
	if len(kinds) == 0 {
		kinds = itemKinds
	}
	for i := 0; i < ni; i++ {
		it := WItem{Mod: rng.IntN(n), Kind: kinds[rng.IntN(len(kinds))]}
		it.AtStart = rng.IntN(3) == 0
		switch rng.IntN(3) {
		case 0:
			it.Dur = -1
		default:
			it.Dur = rng.IntN(len(durLadder))
		}
		maxDrain := 5 // up to 55s
		if p.Late && rng.IntN(2) == 0 {
			it.Drain = 5 + rng.IntN(2)
		} else {
			it.Drain = rng.IntN(maxDrain)
		}
		it.Ret = rng.IntN(3)
		if it.Kind == "svc" && rng.IntN(4) == 0 {
			it.Ret = 3 + rng.IntN(2)
		}
		if it.Kind == "svc" && rng.IntN(2) == 0 {
			it.Backoff = rng.IntN(len(backoffLadder))
		}
		if prop == "C06" && rng.IntN(3) == 0 {
			it.Panic = 1 + rng.IntN(nPanicKinds)
			it.PanicTwice = (it.Kind == "svc" || it.Kind == "task" || it.Kind == "tasksched") && rng.IntN(3) == 0
		}
		it.EvMod = rng.IntN(n)
		it.Done = 1 + rng.IntN(3)
		p.Items = append(p.Items, it)
	}
	if (prop == "C05" || prop == "C01") && rng.IntN(4) == 0 {
		// work that returns in the very moment the stop begins (same duration as the client's settle time)
		for i := range p.Items {
			if rng.IntN(2) == 0 && p.Items[i].Kind != "hook" {
				p.Items[i].Dur, p.Items[i].AtStart = p.Settle, false
			}
		}
	}
	if prop == "C05" && p.Mgmt && rng.IntN(4) == 0 {
		p.Mods[rng.IntN(len(p.Mods))].StartFail = true
	}
	if prop == "C05" && p.Mgmt && rng.IntN(3) == 0 {
		p.Warm = true
		for i := range p.Mods {
			p.Mods[i].StopErr = false
			p.Mods[i].LifePanic = [3]int{}
		}
		for i := range p.Items {
			p.Items[i].AtStart = false
		}
	}
	p.Shutdown2 = prop == "C05" && rng.IntN(5) == 0
	if prop == "C05" && rng.IntN(5) == 0 {
		p.Failing = 1 + rng.IntN(n)
	}
	if prop == "C06" && p.Mgmt && rng.IntN(3) == 0 {
		p.Flip, p.FlipDur = 1+rng.IntN(n), rng.IntN(len(flipLadder))
	}
	if p.Mgmt && rng.IntN(2) == 0 {
		k := 1 + rng.IntN(n)
		for i := 0; i < k; i++ {
			p.StopMgmt = append(p.StopMgmt, rng.IntN(n))
		}
	}
	return p
}

// irec is what the harness observed about one execution of an item function.
type irec struct {
	Item          int
	Inv           int
	BeginSeq      uint64
	BeginT        time.Duration
	CtxErrAtBegin bool
	SawCancel     bool
	CancelT       time.Duration
	EndSeq        uint64
	EndT          time.Duration
	Ended         bool
	Panicked      bool
	ctx           context.Context
}

type runRet struct {
	Item int
	Err  error
	Seq  uint64
}

type workState struct {
	p                 *WorkPlan
	rc                *simkit.RunCtx
	prop              string
	mods              []*modules.Module
	evs               []ev // lifecycle events
	inv               [][3]int
	recs              []*irec
	itemInv           []int
	rets              []runRet
	tasks             map[int]*modules.Task
	fastRequeueT      time.Duration
	startT, stopT     time.Duration
	errCh             chan *modules.ModuleError
	oldCh             chan *modules.ModuleError // a channel registered before errCh: nothing may arrive on it
	panicsFired       int
	panicVals         []any
	lifePanics        [3]int // fired lifecycle panics per phase
	startErr, stopErr error
	mgmtErrs          []error
	stopBeginSeq      map[int]uint64 // latest stop begin per module
	stopBeginT        map[int]time.Duration
	stopEndT          map[int]time.Duration
	offlineSeenT      map[int]time.Duration // first time the module was seen offline after its stop began
	lifeOp            int                   // counts the harness's calls of ManageModules and Shutdown
	stopOpOf          map[int]int           // the call during which the module's (last) stop routine was invoked
	postRan           []string
	postCtxOK         []string
	shutdownReturnedT time.Duration
	shutdownCalled    bool
	stopPhase         bool
	pending           []pendingObs
	reported          []*modules.ModuleError
	finalStatus       *modules.Status
	finalMicro        int32
	requeued          map[int]bool
}

func (s *workState) lifecycle(i, ph int) func() error {
	return func() error {
		inv := s.inv[i][ph]
		s.inv[i][ph]++
		s.evs = append(s.evs, ev{Seq: simrt.Seq(), T: simrt.Now(), Mod: i, Phase: phaseNames[ph], Kind: "begin", Inv: inv})
		m := s.p.Mods[i]
		switch ph {
		case 0:
			if d := durLadder[m.PrepDur%3]; d > 0 {
				time.Sleep(d)
			}
		case 1:
			for k, it := range s.p.Items {
				if it.Mod == i && it.AtStart && inv == 0 {
					s.launch(k)
				}
			}
			if d := durLadder[m.StartDur]; d > 0 {
				time.Sleep(d)
			}
		case 2:
			seq := s.evs[len(s.evs)-1].Seq
			s.stopBeginSeq[i] = seq
			s.stopBeginT[i] = simrt.Now()
			s.stopOpOf[i] = s.lifeOp
			delete(s.offlineSeenT, i)
			// observation point: a dependency begins stopping => modules depending on it are completely stopped
			for j, mj := range s.p.Mods {
				for _, d := range mj.Deps {
					if d == i {
						if _, began := s.stopBeginSeq[j]; began {
							s.checkStopped(j, "a module it depends on began stopping")
						}
					}
				}
			}
			// clause 1: contexts of running work of this module are cancelled by now
			for _, r := range s.recs {
				if s.p.Items[r.Item].Mod == i && !r.Ended && r.ctx != nil && r.ctx.Err() == nil {
					if s.prop == "C01" {
						continue
					}
					s.rc.Fail("C05.ctx-not-cancelled-at-stop", "stop routine invoked while the context of running work was not cancelled",
						fmt.Sprintf("module %s item %d (%s)", modName(i), r.Item, s.p.Items[r.Item].Kind))
				}
			}
			if s.mods[i].Ctx.Err() == nil && s.prop != "C01" {
				s.rc.Fail("C05.ctx-not-cancelled-at-stop", "stop routine invoked while the module context was not cancelled", modName(i))
			}
			if d := durLadder[m.StopDur]; d > 0 {
				time.Sleep(d)
			}
			s.stopEndT[i] = simrt.Now()
		}
		s.evs = append(s.evs, ev{Seq: simrt.Seq(), T: simrt.Now(), Mod: i, Phase: phaseNames[ph], Kind: "end", OK: m.LifePanic[ph] == 0 || inv != 0, Inv: inv})
		if ph == 2 && m.StopErr {
			s.rc.Fault("stop-error")
			return fmt.Errorf("injected stop error in %s", modName(i))
		}
		if ph == 1 && m.StartFail && inv == 0 {
			s.rc.Fault("start-error")
			return fmt.Errorf("injected start error in %s", modName(i))
		}
		if k := m.LifePanic[ph]; k != 0 && inv == 0 {
			s.lifePanics[ph]++
			s.rc.Fault("lifecycle-panic-" + phaseNames[ph])
			s.notePanic(k, "life")
			doPanic(k, "life")
		}
		return nil
	}
}

func (s *workState) firstPanicked(k int) bool {
	for _, r := range s.recs {
		if r.Item == k && r.Inv == 0 {
			return r.Panicked
		}
	}
	return false
}

func (s *workState) notePanic(kind int, tag string) {
	s.panicsFired++
	if kind == 6 {
		s.panicVals = append(s.panicVals, "runtime")
	} else {
		s.panicVals = append(s.panicVals, panicValue(kind, tag))
	}
}

// body is the function handed to portbase for item k.
func (s *workState) body(k int) func(ctx context.Context) error {
	return func(ctx context.Context) error {
		it := s.p.Items[k]
		r := &irec{Item: k, Inv: s.itemInv[k], BeginSeq: simrt.Seq(), BeginT: simrt.Now(), ctx: ctx}
		s.itemInv[k]++
		r.CtxErrAtBegin = ctx.Err() != nil
		s.recs = append(s.recs, r)
		var timer <-chan time.Time
		if it.Dur >= 0 && r.Inv == 0 {
			timer = time.After(durLadder[it.Dur])
		} else if r.Inv > 0 {
			timer = time.After(time.Millisecond)
		}
		select {
		case <-ctx.Done():
			r.SawCancel = true
			r.CancelT = simrt.Now()
			if d := drainLadder[it.Drain]; d > 0 {
				time.Sleep(d)
				if d > s.stopT {
					s.rc.Fault("late-item")
				}
			}
		case <-timer:
		}
		r.EndSeq = simrt.Seq()
		r.EndT = simrt.Now()
		r.Ended = true
		if it.Panic != 0 && (r.Inv == 0 || (it.PanicTwice && r.Inv == 1)) && !isSig(it.Kind) {
			r.Panicked = true
			s.rc.Fault("panic-" + it.Kind)
			s.notePanic(it.Panic, fmt.Sprint(k))
			doPanic(it.Panic, fmt.Sprint(k))
		}
		switch it.Ret {
		case 1:
			if ctx.Err() != nil {
				return ctx.Err()
			}
		case 2:
			if r.Inv == 0 {
				return fmt.Errorf("injected item error %d", k)
			}
		case 3:
			if r.Inv == 0 {
				return modules.ErrRestartNow
			}
		case 4:
			// a service worker that asks for a restart at its first return and whenever it is cancelled
			if r.Inv == 0 || r.SawCancel {
				return fmt.Errorf("item %d wants to be restarted: %w", k, modules.ErrRestartNow)
			}
		}
		return nil
	}
}

// launch submits item k to portbase.
func (s *workState) launch(k int) {
	it := s.p.Items[k]
	m := s.mods[it.Mod]
	name := fmt.Sprintf("item%d", k)
	fn := s.body(k)
	blocking := func(call func() error) {
		go func() {
			err := call()
			s.rets = append(s.rets, runRet{Item: k, Err: err, Seq: simrt.Seq()})
		}()
	}
	hour := time.Hour
	switch it.Kind {
	case "worker":
		m.StartWorker(name, fn)
	case "runworker":
		blocking(func() error { return m.RunWorker(name, fn) })
	case "svc":
		m.StartServiceWorker(name, backoffLadder[it.Backoff%len(backoffLadder)], fn)
	case "task":
		s.tasks[k] = m.NewTask(name, func(ctx context.Context, t *modules.Task) error { return fn(ctx) }).Queue()
	case "tasksched":
		s.tasks[k] = m.NewTask(name, func(ctx context.Context, t *modules.Task) error { return fn(ctx) }).Schedule(time.Now().Add(durLadder[(k+2)%len(durLadder)]))
	case "mthigh":
		m.StartHighPriorityMicroTask(name, fn)
	case "mtmed":
		m.StartMicroTask(name, hour, fn)
	case "mtlow":
		m.StartLowPriorityMicroTask(name, hour, fn)
	case "mtrunhigh":
		blocking(func() error { return m.RunHighPriorityMicroTask(name, fn) })
	case "mtrunmed":
		blocking(func() error { return m.RunMicroTask(name, hour, fn) })
	case "mtrunlow":
		blocking(func() error { return m.RunLowPriorityMicroTask(name, hour, fn) })
	case "sighigh", "sigmed", "siglow":
		go func() {
			var done func()
			switch it.Kind {
			case "sighigh":
				done = m.SignalHighPriorityMicroTask()
			case "sigmed":
				done = m.SignalMicroTask(hour)
			default:
				done = m.SignalLowPriorityMicroTask(hour)
			}
			// the signalled work is done by this goroutine (never panics: it is not managed code)
			_ = s.body(k)(m.Ctx)
			for i := 0; i < it.Done; i++ {
				done()
			}
		}()
	case "hook":
		s.mods[it.EvMod].TriggerEvent("ev", k)
	}
}

func execWork(prop string, p *WorkPlan, rc *simkit.RunCtx) {
	s := &workState{p: p, rc: rc, prop: prop, inv: make([][3]int, len(p.Mods)), itemInv: make([]int, len(p.Items)),
		tasks: map[int]*modules.Task{}, stopBeginSeq: map[int]uint64{}, stopBeginT: map[int]time.Duration{}, stopEndT: map[int]time.Duration{},
		offlineSeenT: map[int]time.Duration{}, requeued: map[int]bool{}, stopOpOf: map[int]int{}}
	rc.Data = s
	s.startT, s.stopT = modules.VerifSimTimeouts()
	modules.SetMaxConcurrentMicroTasks(p.Limit)
	if p.Failing > 0 {
		d := durLadder[p.Failing%3]
		modules.SetFailureUpdateNotifyFunc(func(uint8, string, string, string) {
			if d > 0 {
				time.Sleep(d)
			}
		})
	}
	s.errCh = make(chan *modules.ModuleError, 4096)
	if !p.NoChan {
		if p.Limit%2 == 0 {
			// the channel is registered a second time (a component that re-registers itself): reports go to the
			// channel registered last
			s.oldCh = make(chan *modules.ModuleError, 4096)
			modules.SetErrorReportingChannel(s.oldCh)
			rc.Probe("error-channel-registered-twice")
		}
		modules.SetErrorReportingChannel(s.errCh)
	} else {
		rc.Probe("no-error-channel")
	}
	for i, m := range p.Mods {
		var deps []string
		for _, d := range m.Deps {
			deps = append(deps, modName(d))
		}
		mod := modules.Register(modName(i), s.lifecycle(i, 0), s.lifecycle(i, 1), s.lifecycle(i, 2), deps...)
		mod.RegisterEvent("ev", true)
		s.mods = append(s.mods, mod)
	}
	for k, it := range p.Items {
		if it.Kind == "hook" {
			kk := k
			err := s.mods[it.Mod].RegisterEventHook(modName(it.EvMod), "ev", fmt.Sprintf("hook%d", k), func(ctx context.Context, data interface{}) error {
				if data.(int) < 0 {
					s.postRan = append(s.postRan, fmt.Sprintf("event hook for an event triggered on stopped module %s", modName(-1-data.(int))))
					return nil
				}
				if data.(int) != kk {
					return nil
				}
				return s.body(kk)(ctx)
			})
			if err != nil {
				rc.Fail(prop+".harness", "RegisterEventHook failed", err.Error())
				return
			}
		}
	}
	if p.Mgmt {
		modules.EnableModuleManagement(nil)
		for i := range p.Mods {
			s.mods[i].Enable()
		}
	}
	// monitor: first time a module is seen offline after its stop began
	rc.Sim.OnStep = func() {
		for i, m := range s.mods {
			if _, began := s.stopBeginSeq[i]; began {
				if _, seen := s.offlineSeenT[i]; !seen && modules.VerifSimStatus(m) == modules.StatusOffline {
					s.offlineSeenT[i] = simrt.Now()
					s.checkStopped(i, "module reported offline")
				}
			}
		}
	}
	s.startErr = modules.Start()
	rc.H("Start err=%v", s.startErr != nil)
	if s.startErr != nil && p.Mgmt && prop == "C05" {
		failing := false
		for _, m := range p.Mods {
			failing = failing || m.StartFail
		}
		if failing {
			// the failed module is offline again: another management pass starts it (second invocation succeeds)
			s.lifeOp++
			if err := modules.ManageModules(); err == nil {
				s.startErr = nil
				rc.Probe("started-after-failed-first-attempt")
			}
		}
	}
	lifePanicBeforeStart := s.lifePanics[0]+s.lifePanics[1] > 0
	if prop == "C06" && lifePanicBeforeStart && s.startErr == nil {
		rc.Fail("C06.lifecycle-panic-not-reported", "Start returned nil although a prep/start routine panicked", "")
		return
	}
	if s.startErr == nil && p.Warm {
		// second use: stop everything, start a worker on every stopped module that ignores its (already cancelled)
		// context for a while, start everything again; what the first run left behind must not disturb the second
		for _, m := range s.mods {
			m.Disable()
		}
		s.lifeOp++
		if err := modules.ManageModules(); err != nil {
			rc.Fail(prop+".harness", "warm-up stop failed", err.Error())
			return
		}
		for i, m := range s.mods {
			d := []time.Duration{300 * time.Millisecond, 2 * time.Second}[i%2]
			m.StartWorker("straggler", func(ctx context.Context) error {
				time.Sleep(d)
				return nil
			})
		}
		for _, m := range s.mods {
			m.Enable()
		}
		s.lifeOp++
		if err := modules.ManageModules(); err != nil {
			rc.Fail(prop+".harness", "warm-up restart failed", err.Error())
			return
		}
		rc.Probe("restarted-before-workload")
	}
	if s.startErr == nil {
		for k, it := range p.Items {
			if !it.AtStart {
				s.launch(k)
				if k%2 == 1 {
					time.Sleep(time.Millisecond)
				}
			}
		}
		if p.Flip > 0 && p.Mgmt && p.Flip <= len(s.mods) && prop == "C06" {
			// flags flipped and flipped back before any management pass acts on them
			fm := s.mods[p.Flip-1]
			fm.Disable()
			time.Sleep(flipLadder[p.FlipDur%len(flipLadder)])
			fm.Enable()
			rc.Probe("enabled-flag-flipped-and-restored")
		}
		if d := durLadder[p.Settle]; d > 0 {
			time.Sleep(d)
		}
		if prop == "C06" && p.Requeue {
			// let panicking tasks finish, then submit them again
			if p.RequeueFast {
				allRan := func() bool {
					for k, it := range p.Items {
						if it.Kind != "task" && it.Kind != "tasksched" {
							continue
						}
						if s.itemInv[k] == 0 {
							return false
						}
						for _, r := range s.recs {
							if r.Item == k && !r.Ended {
								return false
							}
						}
					}
					return true
				}
				for n := 0; n < 600 && !allRan(); n++ {
					time.Sleep(500 * time.Millisecond)
				}
				if allRan() {
					time.Sleep(5 * time.Second) // the clean-up after the panic is still part of the execution
					s.fastRequeueT = simrt.Now()
				}
			} else {
				time.Sleep(2 * time.Minute)
			}
			for k, it := range p.Items {
				if (it.Kind == "task" || it.Kind == "tasksched") && it.Panic != 0 && s.tasks[k] != nil && s.itemInv[k] == 1 && s.firstPanicked(k) {
					s.tasks[k].Queue()
					s.requeued[k] = true
					rc.Probe("task-requeued-after-panic")
				}
			}
			time.Sleep(15 * time.Minute)
		}
	}
	s.stopPhase = true
	if p.Failing > 0 && p.Failing <= len(s.mods) && s.startErr == nil {
		fm := s.mods[p.Failing-1]
		failDone := make(chan struct{})
		go func() {
			defer close(failDone)
			fm.Warning("sim-warning", "simulated", "a warning raised while the stop is under way")
			time.Sleep(time.Millisecond)
			fm.Resolve("sim-warning")
		}()
		defer func() { <-failDone }()
		rc.Probe("failure-status-changes-during-stop")
	}
	if p.Mgmt && len(p.StopMgmt) > 0 && s.startErr == nil {
		for _, i := range p.StopMgmt {
			s.mods[i].Disable()
		}
		before := s.lifePanics[2]
		s.lifeOp++
		err := modules.ManageModules()
		s.mgmtErrs = append(s.mgmtErrs, err)
		rc.H("Manage err=%v", err != nil)
		if prop == "C06" && s.lifePanics[2] > before && err == nil {
			rc.Fail("C06.lifecycle-panic-not-reported", "ManageModules returned nil although a stop routine panicked", "")
			return
		}
		s.afterStopReturn("ManageModules returned")
		if p.Post {
			s.post()
		}
	}
	if rc.Failed() {
		return
	}
	before := s.lifePanics[2]
	s.shutdownCalled = true
	s.lifeOp++
	var second chan struct{}
	if p.Shutdown2 {
		second = make(chan struct{})
		go func() {
			defer close(second)
			err := modules.Shutdown()
			rc.H("Shutdown (second caller) err=%v", err != nil)
			rc.Probe("second-shutdown-caller")
			if rc.Failed() {
				return
			}
			s.afterStopReturn("Shutdown returned to a second caller")
			if s.startErr == nil {
				for i, m := range s.mods {
					if m.Online() && !rc.Failed() && prop != "C01" {
						rc.Fail("C05.online-after-shutdown", "a module was still online (its work not cancelled, its stop routine not invoked) when Shutdown returned", modName(i)+" (second caller)")
					}
				}
			}
		}()
	}
	s.stopErr = modules.Shutdown()
	s.shutdownReturnedT = simrt.Now()
	rc.H("Shutdown err=%v", s.stopErr != nil)
	if prop == "C06" && s.lifePanics[2] > before && s.stopErr == nil {
		rc.Fail("C06.lifecycle-panic-not-reported", "Shutdown returned nil although a stop routine panicked", "")
		return
	}
	s.afterStopReturn("Shutdown returned")
	if s.startErr == nil {
		for i, m := range s.mods {
			if m.Online() && !rc.Failed() && prop != "C01" {
				rc.Fail("C05.online-after-shutdown", "a module was still online (its work not cancelled, its stop routine not invoked) when Shutdown returned", modName(i))
			}
		}
	}
	if second != nil {
		<-second
	}
	if p.Post && !rc.Failed() {
		s.post()
	}
	simrt.AwaitQuiescence(30 * time.Minute)
	s.final()
}

// timely reports (at the end of the run) whether everything of module i that
// was running when its last stop began returned within the stop timeout
// (with a safety margin); work that never returned counts as late.
func (s *workState) timely(i int) bool {
	bt, ok := s.stopBeginT[i]
	if !ok {
		return true
	}
	lim := s.stopT - 3*time.Second
	for _, r := range s.recs {
		if s.p.Items[r.Item].Mod != i || r.BeginSeq > s.stopBeginSeq[i] {
			continue
		}
		if !r.Ended || (r.EndT > bt && r.EndT-bt >= lim) {
			return false
		}
	}
	et, ok := s.stopEndT[i]
	return ok && et-bt < lim
}

// pendingObs is an observation "module i was seen stopped at time T while
// record r (or the stop routine, r == nil) had not returned"; whether it is a
// violation depends on whether that work turns out to return within the stop
// timeout, which is only known at the end of the run.
type pendingObs struct {
	Mod int
	At  string
	Rec *irec
	Seq uint64 // stop begin this observation belongs to
}

// checkStopped is clause 2 for module i at one of the three observation points.
func (s *workState) checkStopped(i int, at string) {
	sb, ok := s.stopBeginSeq[i]
	if !ok {
		return
	}
	if _, ended := s.stopEndT[i]; !ended {
		s.pending = append(s.pending, pendingObs{Mod: i, At: at, Seq: sb})
	}
	for _, r := range s.recs {
		if s.p.Items[r.Item].Mod == i && r.BeginSeq < sb && !r.Ended {
			s.pending = append(s.pending, pendingObs{Mod: i, At: at, Rec: r, Seq: sb})
		}
	}
}

func (s *workState) afterStopReturn(at string) {
	for i, m := range s.mods {
		if _, began := s.stopBeginSeq[i]; began && !m.Online() {
			s.checkStopped(i, at)
		}
	}
}

// post submits work to stopped modules (clause 5).
func (s *workState) post() {
	for i, m := range s.mods {
		if m.Online() {
			continue
		}
		if _, began := s.stopBeginSeq[i]; !began {
			continue
		}
		tag := modName(i)
		m.NewTask("post-task", func(ctx context.Context, t *modules.Task) error {
			s.postRan = append(s.postRan, "task on "+tag)
			return nil
		}).Queue().StartASAP()
		m.TriggerEvent("ev", -1-i)
		m.StartWorker("post-worker", func(ctx context.Context) error {
			if ctx.Err() == nil {
				s.postCtxOK = append(s.postCtxOK, "worker on "+tag)
			}
			return nil
		})
		mm := m
		go func() {
			_ = mm.RunHighPriorityMicroTask("post-mt", func(ctx context.Context) error {
				if ctx.Err() == nil {
					s.postCtxOK = append(s.postCtxOK, "microtask on "+tag)
				}
				return nil
			})
		}()
		s.rc.Probe("post-stop-submissions")
	}
}

func (s *workState) final() {
	rc := s.rc
	for more := true; more; {
		select {
		case me := <-s.errCh:
			if me.Severity == "panic" {
				s.reported = append(s.reported, me)
			}
		default:
			more = false
		}
	}
	s.finalStatus = modules.GetStatus()
	s.finalMicro = modules.VerifSimMicroTasks()
	if rc.Failed() {
		return
	}
	if s.oldCh != nil && len(s.oldCh) > 0 {
		me := <-s.oldCh
		rc.Fail("C06.report-count", "an error report went to a channel that had been replaced by a later registration", me.Error())
		return
	}
	if s.prop == "C01" {
		return
	}
	if len(s.postRan) > 0 {
		rc.Fail("C05.ran-on-stopped-module", "a task created for a stopped module was executed", s.postRan[0])
		return
	}
	if len(s.postCtxOK) > 0 {
		rc.Fail("C05.live-ctx-on-stopped-module", "work started on a stopped module received a context that was not cancelled", s.postCtxOK[0])
		return
	}
}

func checkWork(prop string, p *WorkPlan, rc *simkit.RunCtx) {
	s, _ := rc.Data.(*workState)
	if s == nil {
		return
	}
	sort.SliceStable(s.evs, func(i, j int) bool { return s.evs[i].Seq < s.evs[j].Seq })
	for _, e := range s.evs {
		rc.H("%s %s %s", modName(e.Mod), e.Phase, e.Kind)
	}
	for _, r := range s.recs {
		rc.H("item%d %s inv%d cancel=%v ended=%v", r.Item, p.Items[r.Item].Kind, r.Inv, r.SawCancel, r.Ended)
	}
	if rc.Stats.Stalled {
		rc.Fail(prop+".stall", "a lifecycle call never returned", rc.Stats.StallInfo)
		return
	}
	if rc.Stats.StepCap {
		rc.Inconcl = "step-cap"
		return
	}
	if !s.shutdownCalled || s.shutdownReturnedT == 0 {
		return
	}
	if prop == "C01" {
		// second stage of C01: a module's stop routine begins only after every started module that depends on it
		// has completely stopped - its stop routine and its managed work have returned (as long as they return
		// within the stop timeout; what a stop may give up on is C05's subject)
		for _, po := range s.pending {
			if po.At != "a module it depends on began stopping" || po.Seq != s.stopBeginSeq[po.Mod] || !s.timely(po.Mod) {
				continue
			}
			what := "its stop routine had not returned"
			if po.Rec != nil {
				what = fmt.Sprintf("item %d (%s) of it was still running", po.Rec.Item, p.Items[po.Rec.Item].Kind)
			}
			rc.Fail("C01.stop-order", "a module's stop routine began before a started module that depends on it had completely stopped (stop routine or managed work still running)",
				fmt.Sprintf("dependant %s: %s", modName(po.Mod), what))
			return
		}
		rc.Probe("stop-order-with-work-judged")
		return
	}
	// hooks triggered on stopped modules must not have run: a hook record with data -1-i cannot exist by construction (body filters), fine.
	allTimely := true
	for i := range p.Mods {
		if !s.timely(i) {
			allTimely = false
		}
	}
	// clause 2: observations of "stopped" while work that turned out to be timely was still running
	for _, po := range s.pending {
		if po.Seq != s.stopBeginSeq[po.Mod] || !s.timely(po.Mod) {
			rc.Probe("untimely-observation-skipped")
			continue
		}
		if po.Rec == nil {
			rc.Fail("C05.stopped-before-stop-returned", po.At+" before its stop routine had returned", modName(po.Mod))
		} else {
			rc.Fail("C05.stopped-before-work-returned", po.At+" while managed work of the module was still running",
				fmt.Sprintf("module %s item %d (%s) inv %d", modName(po.Mod), po.Rec.Item, p.Items[po.Rec.Item].Kind, po.Rec.Inv))
		}
		return
	}
	// promptness (clause 3)
	if allTimely {
		for i := range p.Mods {
			bt, ok := s.stopBeginT[i]
			if !ok {
				continue
			}
			last := s.stopEndT[i]
			for _, r := range s.recs {
				if p.Items[r.Item].Mod == i && r.Ended && r.EndT > last {
					if p.Items[r.Item].Kind == "svc" && r.Inv > 0 && r.BeginT > bt {
						// a service worker is not restarted once its module is being stopped (a restart in the very
						// instant of the stop aside): a later invocation is not work the stop has to wait for
						continue
					}
					last = r.EndT
				}
			}
			if last < bt {
				last = bt
			}
			off, seen := s.offlineSeenT[i]
			if !seen {
				rc.Fail("C05.never-offline", "a module whose stop routine was invoked was never reported offline", modName(i))
				return
			}
			if off-last >= s.stopT/2 {
				rc.Fail("C05.not-prompt", "module went offline only long after its stop routine and all its work had returned",
					fmt.Sprintf("%s: last return at %v, offline at %v", modName(i), last, off))
				return
			}
		}
		// modules a stopped module depends on begin stopping promptly as well: once the last of the dependants that
		// were stopped by the same call is offline, nothing else (an unrelated module that takes its time) is waited for
		for d := range p.Mods {
			bt, ok := s.stopBeginT[d]
			if !ok {
				continue
			}
			last, any, open := time.Duration(0), false, false
			for x, mx := range p.Mods {
				for _, dd := range mx.Deps {
					if dd != d {
						continue
					}
					if _, stopped := s.stopBeginT[x]; !stopped || s.stopOpOf[x] != s.stopOpOf[d] {
						continue
					}
					// the dependant is through when its stop routine and its work have returned and, unless its stop
					// failed, it has been reported offline
					done, ended := s.stopEndT[x]
					if !ended || done < s.stopBeginT[x] {
						open = true
						continue
					}
					for _, r := range s.recs {
						if p.Items[r.Item].Mod == x && r.Ended && r.EndT > done {
							done = r.EndT
						}
					}
					if off, seen := s.offlineSeenT[x]; seen && off > done {
						done = off
					}
					any = true
					if done > last {
						last = done
					}
				}
			}
			if open {
				continue
			}
			if any && bt-last >= s.stopT/2 {
				rc.Fail("C05.dependency-stop-late", "a dependency began stopping only long after the last module depending on it was offline",
					fmt.Sprintf("%s: last dependant through at %v, stop routine invoked at %v", modName(d), last, bt))
				return
			}
			if any {
				rc.Probe("dependency-stop-judged")
			}
		}
		rc.Probe("all-timely")
	} else {
		rc.Probe("late-run")
	}
	// tasks and event hooks must not be executed at all once their module has been reported offline
	for _, r := range s.recs {
		i := p.Items[r.Item].Mod
		kind := p.Items[r.Item].Kind
		off, seen := s.offlineSeenT[i]
		if !seen || !(kind == "task" || kind == "tasksched" || kind == "hook") {
			continue
		}
		if r.BeginT > off || (r.BeginT == off && r.BeginSeq > s.stopBeginSeq[i]) {
			restarted := false
			for _, e := range s.evs {
				if e.Mod == i && e.Phase == "start" && e.Kind == "begin" && e.Seq > s.stopBeginSeq[i] && e.Seq < r.BeginSeq {
					restarted = true
				}
			}
			if !restarted && r.BeginT > off {
				rc.Fail("C05.ran-on-stopped-module", "a task or event hook of a stopped module was executed", fmt.Sprintf("item %d (%s) on %s began at %v, module offline at %v", r.Item, kind, modName(i), r.BeginT, off))
				return
			}
		}
	}
	// items begun after stop began (and before any restart) must have seen a cancelled context
	for _, r := range s.recs {
		i := p.Items[r.Item].Mod
		sb, ok := s.stopBeginSeq[i]
		if !ok || r.BeginSeq < sb || r.CtxErrAtBegin {
			continue
		}
		restarted := false
		for _, e := range s.evs {
			if e.Mod == i && e.Phase == "start" && e.Kind == "begin" && e.Seq > sb && e.Seq < r.BeginSeq {
				restarted = true
			}
		}
		// the last stop begin is what we recorded; earlier cycles are not tracked
		if !restarted {
			kind := p.Items[r.Item].Kind
			if kind == "task" || kind == "tasksched" || kind == "hook" {
				rc.Fail("C05.ran-on-stopped-module", "a task or event hook of a stopped module was executed", fmt.Sprintf("item %d (%s) on %s", r.Item, kind, modName(i)))
			} else {
				rc.Fail("C05.live-ctx-on-stopped-module", "work started on a stopping module received a context that was not cancelled", fmt.Sprintf("item %d (%s) on %s", r.Item, kind, modName(i)))
			}
			return
		}
	}
	if prop == "C06" {
		checkC06(s, p, rc)
	}
}

func checkC06(s *workState, p *WorkPlan, rc *simkit.RunCtx) {
	// clause 2: reported errors
	reported := s.reported
	if p.NoChan {
		// nothing listens: only what the blocking variants return can be looked at
		for _, rr := range s.rets {
			if p.Items[rr.Item].Panic == 0 {
				continue
			}
			ok, me := modules.IsPanic(rr.Err)
			if !ok {
				rc.Fail("C06.blocking-return", "blocking run variant did not return a panic error for a panicking function", fmt.Sprintf("item %d: %v", rr.Item, rr.Err))
				return
			}
			if me.StackTrace == "" {
				rc.Fail("C06.no-stack", "panic error without stack trace (returned by a blocking variant, no error channel set)", me.Message)
				return
			}
		}
		checkC06State(s, p, rc)
		return
	}
	if len(reported) != s.panicsFired {
		rc.Fail("C06.report-count", "number of panic reports on the error channel differs from the number of panics raised",
			fmt.Sprintf("raised %d, reported %d", s.panicsFired, len(reported)))
		return
	}
	for _, me := range reported {
		if me.StackTrace == "" {
			rc.Fail("C06.no-stack", "panic error without stack trace", me.Message)
			return
		}
		if ok, _ := modules.IsPanic(me); !ok {
			rc.Fail("C06.not-ispanic", "reported panic error does not identify itself as panic", me.Message)
			return
		}
	}
	// every raised value arrives, unchanged in type and content, in one of the reports
	used := make([]bool, len(reported))
	ordered := make([]any, 0, len(s.panicVals)) // exact values first, so that the loose matches cannot take their reports
	for _, v := range s.panicVals {
		if v != nil && v != "runtime" {
			ordered = append(ordered, v)
		}
	}
	for _, v := range s.panicVals {
		if v == "runtime" {
			ordered = append(ordered, v)
		}
	}
	for _, v := range s.panicVals {
		if v == nil {
			ordered = append(ordered, v)
		}
	}
	for _, v := range ordered {
		found := false
		for i, me := range reported {
			if used[i] {
				continue
			}
			switch {
			case v == nil: // panic(nil): the runtime substitutes its own error value
				found = me.PanicValue != nil
			case v == "runtime":
				_, found = me.PanicValue.(runtime.Error)
			default:
				found = reflect.TypeOf(me.PanicValue) == reflect.TypeOf(v) && fmt.Sprint(me.PanicValue) == fmt.Sprint(v)
			}
			if found {
				used[i] = true
				break
			}
		}
		if !found {
			var got []string
			for _, me := range reported {
				got = append(got, fmt.Sprintf("%T(%v)", me.PanicValue, me.PanicValue))
			}
			rc.Fail("C06.panic-value", "no reported panic error carries the value that was raised", fmt.Sprintf("raised %T(%v); reported %s", v, v, strings.Join(got, "; ")))
			return
		}
	}
	// blocking variants return the panic error
	for _, rr := range s.rets {
		it := p.Items[rr.Item]
		if it.Panic == 0 {
			// error pass-through (C15 clause too)
			continue
		}
		ok, me := modules.IsPanic(rr.Err)
		if !ok {
			rc.Fail("C06.blocking-return", "blocking run variant did not return a panic error for a panicking function", fmt.Sprintf("item %d (%s): %v", rr.Item, it.Kind, rr.Err))
			return
		}
		want := panicValue(it.Panic, fmt.Sprint(rr.Item))
		if it.Panic != 6 && it.Panic != 5 && it.Panic != 1 && it.Panic != 4 && it.Panic != 8 && me.PanicValue != want {
			rc.Fail("C06.panic-value", "panic error does not carry the panic value", fmt.Sprintf("item %d: got %v want %v", rr.Item, me.PanicValue, want))
			return
		}
		if it.Panic == 1 || it.Panic == 4 || it.Panic == 8 {
			if fmt.Sprint(me.PanicValue) != fmt.Sprint(want) {
				rc.Fail("C06.panic-value", "panic error does not carry the panic value", fmt.Sprintf("item %d: got %v want %v", rr.Item, me.PanicValue, want))
				return
			}
		}
		if me.PanicValue == nil {
			rc.Fail("C06.panic-value", "panic error carries no panic value", fmt.Sprintf("item %d", rr.Item))
			return
		}
		found := false
		for _, r := range reported {
			if r == me {
				found = true
			}
		}
		if !found {
			rc.Fail("C06.report-identity", "the error returned by the blocking variant is not the one reported on the error channel", fmt.Sprintf("item %d", rr.Item))
			return
		}
	}
	checkC06State(s, p, rc)
}

// checkC06State: counters, restarts and re-runs (what does not depend on the error channel).
func checkC06State(s *workState, p *WorkPlan, rc *simkit.RunCtx) {
	// clause 4: counters back to zero at quiescence
	if st := s.finalStatus; st != nil {
		if st.Total.Workers != 0 || st.Total.Tasks != 0 || st.Total.MicroTasks != 0 || st.Total.CtrlFuncRunning != 0 {
			// only if every item ended
			all := true
			for _, r := range s.recs {
				if !r.Ended {
					all = false
				}
			}
			if all {
				rc.Fail("C06.counters", "work counters not back to zero after all work returned",
					fmt.Sprintf("workers=%d tasks=%d microtasks=%d ctrl=%d", st.Total.Workers, st.Total.Tasks, st.Total.MicroTasks, st.Total.CtrlFuncRunning))
				return
			}
		}
	}
	if n := s.finalMicro; n != 0 {
		all := true
		for _, r := range s.recs {
			if !r.Ended {
				all = false
			}
		}
		if all {
			rc.Fail("C06.counters", "global microtask counter not back to zero after all work returned", fmt.Sprint(n))
			return
		}
	}
	// clause 5: restart of service workers / re-run of tasks
	for k, it := range p.Items {
		if it.Panic == 0 || s.itemInv[k] == 0 {
			continue
		}
		var first *irec
		for _, r := range s.recs {
			if r.Item == k && r.Inv == 0 {
				first = r
			}
		}
		if first == nil || !first.Panicked {
			continue
		}
		switch it.Kind {
		case "svc":
			// restarted unless the module was stopping when it panicked (or stopped during back-off)
			if s.itemInv[k] < 2 && !first.SawCancel {
				sb, stopped := s.stopBeginT[it.Mod]
				bo := backoffLadder[it.Backoff%len(backoffLadder)]
				if bo == 0 {
					bo = modules.DefaultBackoffDuration
				}
				if !stopped || first.EndT+bo+10*time.Second < sb {
					rc.Fail("C06.svc-not-restarted", "service worker was not restarted after a panic", fmt.Sprintf("item %d", k))
					return
				}
			}
			if s.itemInv[k] >= 2 {
				rc.Probe("svc-restarted-after-panic")
			}
		case "task", "tasksched":
			if s.requeued[k] && s.fastRequeueT > 0 && s.itemInv[k] >= 2 {
				// no task was running or waiting when the tasks were submitted again: the first of them starts
				// as soon as a timeslot is free (at most 30 s), not after the one-minute execution-wait limit
				earliest := time.Duration(-1)
				for _, r := range s.recs {
					if s.requeued[r.Item] && r.Inv == 1 && (earliest < 0 || r.BeginT < earliest) {
						earliest = r.BeginT
					}
				}
				if earliest-s.fastRequeueT > 40*time.Second {
					// Not a violation of the property as stated ("can run again"): the unchanged tree does the same
					// whenever a task function returns before the queue handler's waiter has read the task context
					// (the race the source comments on), so lateness is only counted.
					rc.Probe("task-rerun-after-wait-limit")
				}
				rc.Probe("task-rerun-prompt")
			}
			if s.requeued[k] && s.itemInv[k] < 2 {
				rc.Fail("C06.task-not-rerun", "a task whose execution panicked did not run again when re-queued", fmt.Sprintf("item %d", k))
				return
			}
			if s.itemInv[k] >= 2 {
				rc.Probe("task-reran-after-panic")
			}
		}
	}
}

func shrinkWork(p *WorkPlan) []any {
	var out []any
	clone := func() *WorkPlan {
		q := *p
		q.Mods = nil
		for _, m := range p.Mods {
			m2 := m
			m2.Deps = append([]int(nil), m.Deps...)
			q.Mods = append(q.Mods, m2)
		}
		q.Items = append([]WItem(nil), p.Items...)
		q.StopMgmt = append([]int(nil), p.StopMgmt...)
		return &q
	}
	if len(p.Items) > 1 {
		q := clone()
		q.Items = q.Items[:len(q.Items)/2]
		out = append(out, q)
		q = clone()
		q.Items = q.Items[len(q.Items)/2:]
		out = append(out, q)
	}
	for i := range p.Items {
		q := clone()
		q.Items = append(q.Items[:i], q.Items[i+1:]...)
		out = append(out, q)
	}
	for i := len(p.Mods) - 1; i >= 0 && len(p.Mods) > 1; i-- {
		used := false
		for _, it := range p.Items {
			if it.Mod == i || (it.Kind == "hook" && it.EvMod == i) {
				used = true
			}
		}
		if used {
			continue
		}
		q := clone()
		q.Mods = append(q.Mods[:i], q.Mods[i+1:]...)
		for k := range q.Mods {
			var nd []int
			for _, d := range q.Mods[k].Deps {
				if d < i {
					nd = append(nd, d)
				} else if d > i {
					nd = append(nd, d-1)
				}
			}
			q.Mods[k].Deps = nd
		}
		for k := range q.Items {
			if q.Items[k].Mod > i {
				q.Items[k].Mod--
			}
			if q.Items[k].EvMod > i {
				q.Items[k].EvMod--
			}
			if q.Items[k].EvMod >= len(q.Mods) {
				q.Items[k].EvMod = 0
			}
		}
		var ns []int
		for _, x := range q.StopMgmt {
			if x < i {
				ns = append(ns, x)
			} else if x > i {
				ns = append(ns, x-1)
			}
		}
		q.StopMgmt = ns
		out = append(out, q)
	}
	if p.Mgmt {
		q := clone()
		q.Mgmt = false
		q.StopMgmt = nil
		out = append(out, q)
	}
	if p.Post {
		q := clone()
		q.Post = false
		out = append(out, q)
	}
	if p.Settle != 0 {
		q := clone()
		q.Settle = 0
		out = append(out, q)
	}
	for i, m := range p.Mods {
		if len(m.Deps) > 0 {
			q := clone()
			q.Mods[i].Deps = nil
			out = append(out, q)
		}
		if m.StartDur != 0 {
			q := clone()
			q.Mods[i].StartDur = 0
			out = append(out, q)
		}
		if m.StopDur != 0 {
			q := clone()
			q.Mods[i].StopDur = 0
			out = append(out, q)
		}
		for ph := 0; ph < 3; ph++ {
			if m.LifePanic[ph] != 0 {
				q := clone()
				q.Mods[i].LifePanic[ph] = 0
				out = append(out, q)
			}
		}
	}
	for i, it := range p.Items {
		if it.Drain != 0 {
			q := clone()
			q.Items[i].Drain = 0
			out = append(out, q)
		}
		if it.Dur != 0 {
			q := clone()
			q.Items[i].Dur = 0
			out = append(out, q)
		}
		if it.Ret != 0 {
			q := clone()
			q.Items[i].Ret = 0
			out = append(out, q)
		}
		if it.AtStart {
			q := clone()
			q.Items[i].AtStart = false
			out = append(out, q)
		}
		if it.Panic > 2 {
			q := clone()
			q.Items[i].Panic = 2
			out = append(out, q)
		}
	}
	return out
}
