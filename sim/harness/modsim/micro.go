package modsim

import (
	"context"
	"fmt"
	"math/rand/v2"
	"time"

	"github.com/safing/portbase/modules"
	"github.com/safing/portbase/verifsim/simkit"
	"github.com/safing/portbase/verifsim/simrt"
)

// MTPlan is a microtask workload (C15).
type MTPlan struct {
	Limit      int     `json:"limit"`
	Tight      bool    `json:"tight,omitempty"` // default (short) max delays: expiry may happen, limit clause off
	Submitters int     `json:"submitters"`
	Subs       []MTSub `json:"subs"`
	QCap       int     `json:"qcap,omitempty"`        // capacity of the clearance queues (0: as shipped, GOMAXPROCS*100)
	EarlyStop  bool    `json:"early_stop,omitempty"`  // Shutdown is called while microtasks are still running
	StopSubmit bool    `json:"stop_submit,omitempty"` // the module's stop routine runs a microtask itself
	PrepMT     int     `json:"prep_mt,omitempty"`     // the module's prep routine starts a high-priority microtask of duration mtDur[PrepMT] that is still running when the module starts
	LowLimit   int     `json:"low_limit,omitempty"`   // 1-3: the limit is requested as LowLimit-2 (-1, 0 or 1; documented minimum 2 applies) after a larger one had been set
	NilModule  int     `json:"nil_module,omitempty"`  // this many blocking submissions are made on a nil *Module (they fail, and leave nothing behind)
	ErrCh      int     `json:"err_ch,omitempty"`      // 1: an error reporting channel without buffer that nobody reads, 2: one with room for a single report (reports are documented to be dropped when the receiver is busy)
}

// MTSub is one microtask submission.
type MTSub struct {
	By      int    `json:"by"`
	Kind    string `json:"kind"` // start|run|sig + high|med|low
	Dur     int    `json:"dur"`
	Gap     int    `json:"gap,omitempty"`
	Panic   bool   `json:"panic,omitempty"`
	Err     bool   `json:"err,omitempty"`
	ErrKind int    `json:"err_kind,omitempty"` // 0 a plain error, 1 context.Canceled, 2 an error wrapping context.Canceled
	Done    int    `json:"done,omitempty"`
}

var mtKinds = []string{"starthigh", "startmed", "startlow", "runhigh", "runmed", "runlow", "sighigh", "sigmed", "siglow"}
var mtDur = []time.Duration{0, time.Millisecond, 20 * time.Millisecond, time.Second, 10 * time.Second}

func genMT(rng *rand.Rand, tier string) *MTPlan {
	p := &MTPlan{Limit: 2 + rng.IntN(5), Tight: rng.IntN(4) == 0, Submitters: 1 + rng.IntN(8)}
	n := 1 + rng.IntN(40)
	if tier == "thorough" && rng.IntN(3) == 0 {
		n = 1 + rng.IntN(120)
	}
	if rng.IntN(2) == 0 {
		p.QCap = 1 + rng.IntN(3)
	}
	p.EarlyStop = rng.IntN(5) == 0
	p.StopSubmit = rng.IntN(4) == 0
	if rng.IntN(5) == 0 {
		p.PrepMT = 2 + rng.IntN(3)
	}
	if rng.IntN(4) == 0 {
		p.ErrCh = 1 + rng.IntN(2)
	}
	if rng.IntN(6) == 0 {
		p.LowLimit = 1 + rng.IntN(3)
		p.Limit = 2
	}
	if rng.IntN(6) == 0 {
		p.NilModule = 1 + rng.IntN(3)
	}
	var kinds []string
	for _, k := range mtKinds {
		if rng.IntN(3) != 0 {
			kinds = append(kinds, k)
		}
	}
	if len(kinds) == 0 {
		kinds = mtKinds
	}
	longish := rng.IntN(2) == 0
	for i := 0; i < n; i++ {
		s := MTSub{By: rng.IntN(p.Submitters), Kind: kinds[rng.IntN(len(kinds))]}
		if longish {
			s.Dur = rng.IntN(len(mtDur))
		} else {
			s.Dur = rng.IntN(3)
		}
		if rng.IntN(3) == 0 {
			s.Gap = rng.IntN(4)
		}
		s.Panic = rng.IntN(10) == 0 && s.Kind[:3] != "sig"
		s.Err = rng.IntN(4) == 0
		if s.Err {
			s.ErrKind = rng.IntN(3)
		}
		s.Done = 1 + rng.IntN(3)
		p.Subs = append(p.Subs, s)
	}
	return p
}

type mtState struct {
	p  *MTPlan
	rc *simkit.RunCtx
	m  *modules.Module
	// gauges
	runHigh, runML, maxML  int
	execs                  []int // executions per submission
	ended                  []int
	rets                   []error
	retSet                 []bool
	negSeen                string
	probeDelay             time.Duration
	probeRan               bool
	subT                   []time.Duration // when each submission was made
	startT                 []time.Duration // when its function began
	stopRan                int             // executions of the microtask the stop routine runs
	prepRan, prepEnded     int             // executions of the microtask the prep routine starts
	nilModuleBad           string          // a blocking submission on a nil module that did not fail cleanly
	stopRet                error
	stopRetSet             bool
	lastEndT               time.Duration // when the last microtask function returned
	shutdownBegun          bool
	anyExpired             bool // some microtask's maximum delay has run out in this run
	earlyStopDone          bool
	earlyStopHeld          time.Duration // time between the return of the last microtask function and the return of Shutdown
	earlyStarted, earlyRan bool
	earlyDelay             time.Duration
	offDelay               time.Duration
	finalGlobal            int32
	finalMod               int32
}

// mtError is the error a microtask function returns: an ordinary one, the context's cancellation error (what a
// function that honours its context returns), or an error wrapping it. The blocking variants hand it back as it is.
func mtError(k, kind int) error {
	switch kind {
	case 1:
		return context.Canceled
	case 2:
		return fmt.Errorf("microtask %d gave up: %w", k, context.Canceled)
	}
	return fmt.Errorf("injected microtask error %d", k)
}

func prioOf(kind string) string { return kind[len(kind)-3:] } // igh|med|low

func execMT(p *MTPlan, rc *simkit.RunCtx) {
	s := &mtState{p: p, rc: rc, execs: make([]int, len(p.Subs)), ended: make([]int, len(p.Subs)), rets: make([]error, len(p.Subs)), retSet: make([]bool, len(p.Subs))}
	rc.Data = s
	modules.SetMaxConcurrentMicroTasks(p.Limit)
	if p.LowLimit > 0 {
		// a limit below the documented minimum of 2 means 2 (p.Limit is 2 in these runs)
		modules.SetMaxConcurrentMicroTasks(7)
		modules.SetMaxConcurrentMicroTasks(p.LowLimit - 2)
		rc.Probe("limit-below-minimum-requested")
	}
	if p.QCap > 0 {
		modules.VerifSimSetClearanceQueue(p.QCap)
		rc.Probe("small-clearance-queue")
	}
	s.subT = make([]time.Duration, len(p.Subs))
	s.startT = make([]time.Duration, len(p.Subs))
	switch p.ErrCh {
	case 1:
		modules.SetErrorReportingChannel(make(chan *modules.ModuleError))
		rc.Probe("error-channel-nobody-reads")
	case 2:
		modules.SetErrorReportingChannel(make(chan *modules.ModuleError, 1))
		rc.Probe("error-channel-nobody-reads")
	}
	var prep func() error
	if p.PrepMT > 0 {
		prep = func() error {
			s.m.StartHighPriorityMicroTask("from-prep", func(ctx context.Context) error {
				s.prepRan++
				s.runHigh++
				time.Sleep(mtDur[p.PrepMT%len(mtDur)])
				s.runHigh--
				s.prepEnded++
				if now := simrt.Now(); now > s.lastEndT {
					s.lastEndT = now
				}
				return nil
			})
			return nil
		}
	}
	s.m = modules.Register("m00", prep, func() error { return nil }, func() error {
		if p.StopSubmit {
			// a microtask run from the stop routine: executed once (with a cancelled context), its error handed back
			s.stopRet = s.m.RunMicroTask("from-stop", time.Hour, func(ctx context.Context) error {
				s.stopRan++
				return fmt.Errorf("error from the stop routine's microtask")
			})
			s.stopRetSet = true
		}
		return nil
	})
	if err := modules.Start(); err != nil {
		rc.Fail("C15.harness", "Start failed", err.Error())
		return
	}
	rc.Sim.OnStep = func() {
		// (the global counter may be transiently below zero between the scheduler
		// closing a clearance signal and counting it: not part of the statement)
		if _, _, mt, _ := modules.VerifSimCounters(s.m); mt < 0 && s.negSeen == "" {
			s.negSeen = fmt.Sprintf("module microtask counter %d", mt)
		}
	}
	maxDelay := time.Hour
	if p.Tight {
		maxDelay = 0 // package defaults
	}
	for i := 0; i < p.NilModule; i++ {
		var nm *modules.Module
		ran := false
		fn := func(ctx context.Context) error { ran = true; return nil }
		var err error
		switch i % 3 {
		case 0:
			err = nm.RunMicroTask("on-nil-module", time.Hour, fn)
		case 1:
			err = nm.RunLowPriorityMicroTask("on-nil-module", time.Hour, fn)
		default:
			err = nm.RunHighPriorityMicroTask("on-nil-module", fn)
		}
		if err == nil || ran {
			s.nilModuleBad = fmt.Sprintf("err=%v ran=%v", err, ran)
		}
		rc.Probe("submission-on-nil-module")
	}
	body := func(k int) func(context.Context) error {
		return func(ctx context.Context) error {
			sub := p.Subs[k]
			s.execs[k]++
			s.startT[k] = simrt.Now()
			high := prioOf(sub.Kind) == "igh"
			if high {
				s.runHigh++
			} else {
				s.runML++
				if s.runML > s.maxML {
					s.maxML = s.runML
				}
				if !p.Tight && s.runHigh == 0 && s.runML > p.Limit && !s.shutdownBegun {
					rc.Fail("C15.limit-exceeded", "more medium/low-priority microtasks executing than the configured limit (no high-priority running, no delay expired)",
						fmt.Sprintf("%d executing, limit %d", s.runML, p.Limit))
				}
				if p.Tight {
					// a microtask whose maximum delay (documented default: 1 s medium, 3 s low; signal variants are
					// given 1 s here) has run out when it starts: from now on the bound is off
					nd := time.Second
					if prioOf(sub.Kind) == "low" && sub.Kind[:3] != "sig" {
						nd = 3 * time.Second
					}
					if simrt.Now()-s.subT[k] >= nd-50*time.Millisecond {
						s.anyExpired = true
					}
				}
				if p.Tight && s.runHigh == 0 && s.runML > p.Limit && sub.Kind[:3] != "sig" && !s.shutdownBegun {
					// default delays (documented: 1 second for medium, 3 seconds for low priority): starting on top of a full
					// limit is in order only once this microtask's own delay has run out
					needOf := func(kind string) time.Duration {
						if prioOf(kind) == "low" && kind[:3] != "sig" {
							return 3 * time.Second
						}
						return time.Second // medium priority; the signal variants are given one second by this harness
					}
					// the bound holds "as long as no maximum delay has expired": of no microtask that is waiting or has
					// just started
					expired := false
					for j, o := range p.Subs {
						if prioOf(o.Kind) == "igh" || s.subT[j] == 0 && j != 0 {
							continue
						}
						if s.execs[j] == 0 || j == k || simrt.Now()-s.startT[j] < 50*time.Millisecond {
							if simrt.Now()-s.subT[j] >= needOf(o.Kind)-50*time.Millisecond {
								expired = true
							}
						}
					}
					// (and it stays off afterwards: a microtask that started without clearance is counted by the scheduler
					// only when its stale request comes up, so the admission count runs low for a while)
					if expired {
						s.anyExpired = true
					}
					need := needOf(sub.Kind)
					if waited := simrt.Now() - s.subT[k]; !s.anyExpired && waited < need-50*time.Millisecond {
						rc.Fail("C15.limit-exceeded", "a microtask was started on top of a full limit before its (default) maximum delay had expired",
							fmt.Sprintf("%s waited %v of %v; %d executing, limit %d", sub.Kind, waited, need, s.runML, p.Limit))
					}
				}
			}
			if d := mtDur[sub.Dur]; d > 0 {
				time.Sleep(d)
			}
			if high {
				s.runHigh--
			} else {
				s.runML--
			}
			s.ended[k]++
			s.lastEndT = simrt.Now()
			if !s.earlyStarted {
				all := true
				for _, e := range s.ended {
					if e == 0 {
						all = false
					}
				}
				if all {
					// the last microtask is about to finish: a moment later another one is submitted; nothing is
					// running or waiting any more, so it is admitted at once
					s.earlyStarted = true
					go func() {
						time.Sleep(time.Millisecond)
						t0 := simrt.Now()
						_ = s.m.RunLowPriorityMicroTask("early-probe", 10*time.Minute, func(ctx context.Context) error {
							s.earlyRan, s.earlyDelay = true, simrt.Now()-t0
							return nil
						})
					}()
				}
			}
			if sub.Panic {
				rc.Fault("microtask-panic")
				panic(fmt.Sprintf("injected microtask panic %d", k))
			}
			if sub.Err {
				return mtError(k, sub.ErrKind)
			}
			return nil
		}
	}
	done := make(chan struct{}, p.Submitters)
	for c := 0; c < p.Submitters; c++ {
		c := c
		go func() {
			defer func() { done <- struct{}{} }()
			for k, sub := range p.Subs {
				if sub.By != c {
					continue
				}
				if sub.Gap > 0 {
					time.Sleep(mtDur[sub.Gap])
				}
				name := fmt.Sprintf("mt%d", k)
				fn := body(k)
				s.subT[k] = simrt.Now()
				switch sub.Kind {
				case "starthigh":
					s.m.StartHighPriorityMicroTask(name, fn)
				case "startmed":
					s.m.StartMicroTask(name, maxDelay, fn)
				case "startlow":
					s.m.StartLowPriorityMicroTask(name, maxDelay, fn)
				case "runhigh":
					s.rets[k], s.retSet[k] = s.m.RunHighPriorityMicroTask(name, fn), true
				case "runmed":
					s.rets[k], s.retSet[k] = s.m.RunMicroTask(name, maxDelay, fn), true
				case "runlow":
					s.rets[k], s.retSet[k] = s.m.RunLowPriorityMicroTask(name, maxDelay, fn), true
				case "sighigh", "sigmed", "siglow":
					var d func()
					md := maxDelay
					if md == 0 {
						md = time.Second
					}
					switch sub.Kind {
					case "sighigh":
						d = s.m.SignalHighPriorityMicroTask()
					case "sigmed":
						d = s.m.SignalMicroTask(md)
					default:
						d = s.m.SignalLowPriorityMicroTask(md)
					}
					kk := k
					go func() {
						_ = fn(context.Background())
						// repeated calls, sequentially and from concurrent goroutines
						n := p.Subs[kk].Done
						if n >= 3 {
							for i := 0; i < n; i++ {
								go d()
							}
						} else {
							for i := 0; i < n; i++ {
								d()
							}
						}
						if p.Subs[kk].Done > 1 {
							rc.Probe("done-called-repeatedly")
						}
					}()
				}
			}
		}()
	}
	for c := 0; c < p.Submitters; c++ {
		<-done
	}
	if p.EarlyStop {
		// stop while microtasks are still running (those that take a while): the stop ends right after the last one
		running := 0
		for k := range p.Subs {
			if s.execs[k] > s.ended[k] {
				running++
			}
		}
		if running > 0 {
			t1 := simrt.Now()
			s.shutdownBegun = true // the limit is promised only "before shutdown begins"
			_ = modules.Shutdown()
			s.offDelay = simrt.Now() - t1
			s.earlyStopHeld = simrt.Now() - s.lastEndT
			s.earlyStopDone = true
			simrt.AwaitQuiescence(5 * time.Minute)
			return
		}
	}
	simrt.AwaitQuiescence(5 * time.Minute)
	// clause 4: everything finished -> counters zero, next microtask admitted at once, stop not held up
	s.finalGlobal = modules.VerifSimMicroTasks()
	_, _, s.finalMod, _ = modules.VerifSimCounters(s.m)
	t0 := simrt.Now()
	_ = s.m.RunLowPriorityMicroTask("probe", 10*time.Minute, func(ctx context.Context) error {
		s.probeRan = true
		s.probeDelay = simrt.Now() - t0
		return nil
	})
	t1 := simrt.Now()
	_ = modules.Shutdown()
	s.offDelay = simrt.Now() - t1
}

func checkMT(p *MTPlan, rc *simkit.RunCtx) {
	s, _ := rc.Data.(*mtState)
	if s == nil {
		return
	}
	rc.H("limit=%d tight=%v maxML=%d", p.Limit, p.Tight, s.maxML)
	for k, sub := range p.Subs {
		rc.H("%s x%d", sub.Kind, s.execs[k])
	}
	if rc.Stats.Stalled {
		rc.Fail("C15.stall", "microtask submission or shutdown never returned", rc.Stats.StallInfo)
		return
	}
	if rc.Stats.StepCap {
		rc.Inconcl = "step-cap"
		return
	}
	if p.StopSubmit && s.stopRetSet {
		// the microtask the stop routine ran: executed exactly once, its error handed back
		if s.stopRan != 1 {
			rc.Fail("C15.exactly-once", "a microtask run by the module's stop routine was not executed exactly once", fmt.Sprintf("%d executions", s.stopRan))
			return
		}
		if s.stopRet == nil || s.stopRet.Error() != "error from the stop routine's microtask" {
			rc.Fail("C15.run-result", "blocking variant did not return the function's error (microtask run by the stop routine)", fmt.Sprint(s.stopRet))
			return
		}
		rc.Probe("microtask-from-stop-routine")
	}
	if s.nilModuleBad != "" {
		rc.Fail("C15.run-result", "a blocking microtask variant called on a nil module did not return an error without running the function", s.nilModuleBad)
		return
	}
	if p.PrepMT > 0 && (s.prepRan != 1 || (s.prepEnded != 1 && !s.earlyStopDone)) {
		rc.Fail("C15.exactly-once", "a microtask started by the module's prep routine was not executed exactly once", fmt.Sprintf("%d executions, %d returns", s.prepRan, s.prepEnded))
		return
	}
	if p.PrepMT > 0 {
		rc.Probe("microtask-across-module-start")
	}
	if s.earlyStopDone {
		// stopped while microtasks were running: the stop is over right after the last of them returned
		if s.earlyStopHeld >= 0 && s.earlyStopHeld > 10*time.Second && s.lastEndT > 0 {
			rc.Fail("C15.stop-held-up", "module stop was held up after the last running microtask had finished", fmt.Sprintf("Shutdown returned %v after the last microtask function did", s.earlyStopHeld))
			return
		}
		rc.Probe("stopped-while-microtasks-ran")
		return
	}
	if s.maxML >= p.Limit {
		rc.Probe("limit-reached")
	}
	if s.negSeen != "" {
		rc.Fail("C15.negative-count", "a microtask counter went negative", s.negSeen)
		return
	}
	for k, sub := range p.Subs {
		if s.execs[k] != 1 || s.ended[k] != 1 {
			rc.Fail("C15.exactly-once", "a submitted microtask function was not executed exactly once", fmt.Sprintf("submission %d (%s): %d executions", k, sub.Kind, s.execs[k]))
			return
		}
		if sub.Kind[:3] == "run" {
			if !s.retSet[k] {
				rc.Fail("C15.run-no-return", "blocking microtask variant never returned", fmt.Sprintf("submission %d", k))
				return
			}
			err := s.rets[k]
			switch {
			case sub.Panic:
				if ok, _ := modules.IsPanic(err); !ok {
					rc.Fail("C15.run-result", "blocking variant did not return the panic error", fmt.Sprintf("submission %d: %v", k, err))
					return
				}
			case sub.Err:
				if err == nil || err.Error() != mtError(k, sub.ErrKind).Error() {
					rc.Fail("C15.run-result", "blocking variant did not return the function's error", fmt.Sprintf("submission %d: %v", k, err))
					return
				}
			default:
				if err != nil {
					rc.Fail("C15.run-result", "blocking variant returned an error the function did not return", fmt.Sprintf("submission %d: %v", k, err))
					return
				}
			}
		}
	}
	if s.finalGlobal != 0 || s.finalMod != 0 {
		rc.Fail("C15.counts-not-zero", "running counts not back to zero after all microtasks finished", fmt.Sprintf("global=%d module=%d", s.finalGlobal, s.finalMod))
		return
	}
	if !s.probeRan {
		rc.Fail("C15.probe", "a microtask submitted after all others finished never ran", "")
		return
	}
	if s.earlyStarted && !s.earlyRan {
		rc.Fail("C15.probe", "a microtask submitted right after the last one finished never ran", "")
		return
	}
	if s.earlyRan && s.earlyDelay >= 500*time.Millisecond {
		rc.Fail("C15.not-admitted", "a microtask submitted right after all others had finished was not admitted immediately", fmt.Sprintf("waited %v", s.earlyDelay))
		return
	}
	if s.earlyRan {
		rc.Probe("admitted-right-after-last-finish")
	}
	if s.probeDelay >= 9*time.Minute {
		rc.Fail("C15.not-admitted", "a microtask submitted after all others finished was not admitted immediately", fmt.Sprintf("waited %v", s.probeDelay))
		return
	}
	_, stopT := modules.VerifSimTimeouts()
	if s.offDelay >= stopT/2 {
		rc.Fail("C15.stop-held-up", "module stop was held up after all microtasks finished", fmt.Sprintf("Shutdown took %v", s.offDelay))
	}
}

func shrinkMT(p *MTPlan) []any {
	var out []any
	clone := func() *MTPlan {
		q := *p
		q.Subs = append([]MTSub(nil), p.Subs...)
		return &q
	}
	if len(p.Subs) > 1 {
		q := clone()
		q.Subs = q.Subs[:len(q.Subs)/2]
		out = append(out, q)
		q = clone()
		q.Subs = q.Subs[len(q.Subs)/2:]
		out = append(out, q)
	}
	for i := range p.Subs {
		if len(p.Subs) > 1 {
			q := clone()
			q.Subs = append(q.Subs[:i], q.Subs[i+1:]...)
			out = append(out, q)
		}
	}
	if p.Submitters > 1 {
		q := clone()
		q.Submitters = 1
		for i := range q.Subs {
			q.Subs[i].By = 0
		}
		out = append(out, q)
	}
	for i, sb := range p.Subs {
		if sb.Dur > 0 {
			q := clone()
			q.Subs[i].Dur = 0
			out = append(out, q)
		}
		if sb.Gap > 0 {
			q := clone()
			q.Subs[i].Gap = 0
			out = append(out, q)
		}
		if sb.Panic || sb.Err {
			q := clone()
			q.Subs[i].Panic, q.Subs[i].Err = false, false
			out = append(out, q)
		}
		if sb.Done > 1 {
			q := clone()
			q.Subs[i].Done = 1
			out = append(out, q)
		}
	}
	if p.Limit > 2 {
		q := clone()
		q.Limit = 2
		out = append(out, q)
	}
	return out
}
