package modsim

import (
	"context"
	"fmt"
	"math/rand/v2"
	"time"

	"github.com/safing/portbase/modules"
	"github.com/safing/portbase/verifsim/simkit"
	"github.com/safing/portbase/verifsim/simrt"
)

// Two further C07 scenarios with their own small oracles (TaskPlan.Scenario):
//
//   - "repeat":  repeating tasks (Task.Repeat), some of which set their next execution themselves while they run.
//     A task that was only scheduled never starts before its scheduled time: the first execution comes no earlier than
//     one interval after Repeat, every further one no earlier than the time the task set itself, or one interval
//     after the previous execution returned.
//   - "restart": the module is stopped and started again by the module management while clients queue tasks; its start
//     routine creates and queues a task at every start. Everything queued while the module is online is executed.

var repeatIntervals = []time.Duration{time.Minute, 2 * time.Minute}

func genTasksScenario(rng *rand.Rand, tier string) *TaskPlan {
	p := &TaskPlan{Limit: 2 + rng.IntN(4)}
	if rng.IntN(2) == 0 {
		p.Scenario = "repeat"
		for i, n := 0, 1+rng.IntN(2); i < n; i++ {
			t := TSpec{MaxDelay: -1, Dur: rng.IntN(2), SelfArg: rng.IntN(len(repeatIntervals))}
			if rng.IntN(2) == 0 {
				t.Self = "resched"
				t.MaxDelay = 3 + rng.IntN(2) // tDelay index of the self-chosen distance: 2 or 10 minutes
			}
			p.Tasks = append(p.Tasks, t)
		}
		return p
	}
	p.Scenario = "restart"
	for i, n := 0, 1+rng.IntN(3); i < n; i++ {
		p.Tasks = append(p.Tasks, TSpec{MaxDelay: 0, Dur: rng.IntN(3)})
	}
	// three phases of client operations: before the stop, during stop and start, after the start
	for ph := 0; ph < 3; ph++ {
		var prog []TOp
		for i, n := 0, rng.IntN(4); i < n; i++ {
			prog = append(prog, TOp{Task: rng.IntN(len(p.Tasks)), Op: []string{"queue", "queue", "prio", "asap"}[rng.IntN(4)]})
		}
		p.Clients = append(p.Clients, prog)
	}
	if rng.IntN(2) == 0 {
		p.MTLoad = 1 + rng.IntN(3)
	}
	return p
}

type t2Exec struct {
	Task         int
	BeginSeq     uint64
	BeginT, EndT time.Duration
	Ended        bool
	NextAt       time.Duration // repeat: the time the task set for its next execution during this run (0: none)
}

type t2Op struct {
	Task     int
	Op       string
	Inv, Ret uint64
	T        time.Duration
	Down     bool // issued while the module was being stopped or started again
}

type t2State struct {
	p          *TaskPlan
	execs      []*t2Exec
	ops        []*t2Op
	repeatT    []time.Duration
	cancelT    time.Duration
	quietAt    time.Duration
	names      []string
	mgmtErrs   []error
	secondLife int // offset of the task indices used after the restart (0 before it)
}

func execTasksScenario(p *TaskPlan, rc *simkit.RunCtx) {
	s := &t2State{p: p}
	rc.Data = s
	modules.SetMaxConcurrentMicroTasks(p.Limit)
	var m *modules.Module
	var tasks []*modules.Task
	mkFn := func(i int, dur time.Duration, self func(e *t2Exec, t *modules.Task)) func(context.Context, *modules.Task) error {
		return func(ctx context.Context, t *modules.Task) error {
			e := &t2Exec{Task: i, BeginSeq: simrt.Seq(), BeginT: simrt.Now()}
			s.execs = append(s.execs, e)
			if self != nil {
				self(e, t)
			}
			if dur > 0 {
				select {
				case <-time.After(dur):
				case <-ctx.Done():
				}
			}
			e.EndT, e.Ended = simrt.Now(), true
			return nil
		}
	}
	switch p.Scenario {
	case "repeat":
		m = modules.Register("m00", nil, func() error { return nil }, func() error { return nil })
		if err := modules.Start(); err != nil {
			rc.Fail("C07.harness", "Start failed", err.Error())
			return
		}
		for i, ts := range p.Tasks {
			i, ts := i, ts
			var self func(e *t2Exec, t *modules.Task)
			if ts.Self == "resched" {
				self = func(e *t2Exec, t *modules.Task) {
					d := tDelay[ts.MaxDelay%len(tDelay)]
					e.NextAt = simrt.Now() + d
					t.Schedule(time.Now().Add(d))
				}
			}
			t := m.NewTask(fmt.Sprintf("t%d", i), mkFn(i, tDur[ts.Dur%2], self))
			tasks = append(tasks, t)
			s.repeatT = append(s.repeatT, simrt.Now())
			t.Repeat(repeatIntervals[ts.SelfArg%len(repeatIntervals)])
		}
		time.Sleep(26 * time.Minute)
		for _, t := range tasks {
			t.Cancel()
		}
		s.cancelT = simrt.Now()
		rc.Probe("repeating-tasks")
	case "restart":
		modules.EnableModuleManagement(nil)
		starts := 0
		nt := len(p.Tasks)
		m = modules.Register("m00", nil, func() error {
			// the start routine creates and queues a task of its own at every start
			starts++
			i := nt + starts - 1
			s.names = append(s.names, fmt.Sprintf("boot%d", starts))
			o := &t2Op{Task: i, Op: "queue", Inv: simrt.Seq(), T: simrt.Now()}
			s.ops = append(s.ops, o)
			m.NewTask(fmt.Sprintf("boot%d", starts), mkFn(i, 0, nil)).MaxDelay(0).Queue() // no max delay: no schedule entry (the listed extra-run finding needs one)
			o.Ret = simrt.Seq()
			return nil
		}, func() error { return nil })
		m.Enable()
		if err := modules.Start(); err != nil {
			rc.Fail("C07.harness", "Start failed", err.Error())
			return
		}
		for i, ts := range p.Tasks {
			t := m.NewTask(fmt.Sprintf("t%d", i), mkFn(i, tDur[ts.Dur%3], nil))
			t.MaxDelay(0)
			tasks = append(tasks, t)
		}
		down := false
		run := func(prog []TOp) {
			for _, op := range prog {
				o := &t2Op{Task: op.Task + s.secondLife, Op: op.Op, Inv: simrt.Seq(), T: simrt.Now(), Down: down}
				s.ops = append(s.ops, o)
				switch op.Op {
				case "queue":
					tasks[op.Task].Queue()
				case "prio":
					tasks[op.Task].QueuePrioritized()
				default:
					tasks[op.Task].StartASAP()
				}
				o.Ret = simrt.Seq()
				if down {
					o.Down = true
				}
			}
		}
		run(p.Clients[0])
		simrt.AwaitQuiescence(5 * time.Minute) // what was queued so far is executed before the module is stopped
		done := make(chan struct{})
		down = true
		if p.MTLoad > 0 {
			// microtasks keep the time slots busy: a task taken from the queue now waits for its slot while the
			// module goes down
			for k := 0; k < p.Limit+1; k++ {
				m.StartMicroTask("load", time.Hour, func(ctx context.Context) error {
					select {
					case <-time.After(4 * time.Minute):
					case <-ctx.Done():
					}
					return nil
				})
			}
			time.Sleep(time.Millisecond)
		}
		go func() {
			defer close(done)
			run(p.Clients[1])
		}()
		if p.MTLoad > 0 {
			time.Sleep(time.Duration(p.MTLoad) * time.Second)
		}
		m.Disable()
		s.mgmtErrs = append(s.mgmtErrs, modules.ManageModules())
		m.Enable()
		s.mgmtErrs = append(s.mgmtErrs, modules.ManageModules())
		<-done
		down = false
		// tasks belong to one life of their module (their context is derived from the module's): after the restart
		// the clients work with tasks created anew, as the start routine does
		base := nt + 16
		for i, ts := range p.Tasks {
			t := m.NewTask(fmt.Sprintf("t%d-second-life", i), mkFn(base+i, tDur[ts.Dur%3], nil))
			t.MaxDelay(0)
			tasks[i] = t
		}
		time.Sleep(time.Millisecond)
		s.secondLife = base
		run(p.Clients[2])
		rc.Probe("module-restarted-under-queued-tasks")
	}
	simrt.AwaitQuiescence(20 * time.Minute)
	s.quietAt = simrt.Now()
	_ = modules.Shutdown()
}

func checkTasksScenario(p *TaskPlan, rc *simkit.RunCtx) {
	s, _ := rc.Data.(*t2State)
	if s == nil {
		return
	}
	for _, e := range s.execs {
		rc.H("exec t%d", e.Task)
	}
	if rc.Stats.Stalled {
		rc.Fail("C07.stall", "a task API call never returned", rc.Stats.StallInfo)
		return
	}
	if rc.Stats.StepCap || s.quietAt == 0 {
		rc.Inconcl = "step-cap"
		return
	}
	switch p.Scenario {
	case "repeat":
		for i, ts := range p.Tasks {
			iv := repeatIntervals[ts.SelfArg%len(repeatIntervals)]
			var prev *t2Exec
			n := 0
			for _, e := range s.execs {
				if e.Task != i {
					continue
				}
				n++
				if prev != nil && (!prev.Ended || prev.EndT > e.BeginT) {
					rc.Fail("C07.self-overlap", "a task function ran concurrently with itself", fmt.Sprintf("task %d", i))
					return
				}
				notBefore := s.repeatT[i] + iv
				why := "one interval after Repeat was called"
				if prev != nil {
					notBefore, why = prev.EndT+iv, "one interval after its previous execution returned"
					if prev.NextAt > 0 {
						notBefore, why = prev.NextAt, "the time it had set for its next execution itself"
					}
				}
				if e.BeginT < notBefore && prev != nil && e.BeginT-prev.EndT < time.Second {
					// a second execution right on the heels of the first: the listed finding (the queue handler and the
					// schedule handler's overtime path both start the task for one due time)
					rc.Fail("C07.extra-run", "a task was executed more often than it was submitted (task had a schedule entry)",
						fmt.Sprintf("repeating task %d: execution %d began at %v, right after execution %d had returned at %v", i, n, e.BeginT, n-1, prev.EndT))
					return
				}
				if e.BeginT < notBefore {
					rc.Fail("C07.early", "a task that was only scheduled started before its scheduled time (repeating task)",
						fmt.Sprintf("task %d: execution %d began at %v, not due before %v (%s)", i, n, e.BeginT, notBefore, why))
					return
				}
				// (starts after the final Cancel are the business of the main scenarios, which know whether the task
				// had already been taken off the queue when it was cancelled)
				prev = e
			}
			if n == 0 {
				rc.Fail("C07.lost", "a repeating task was never executed although several intervals went by", fmt.Sprintf("task %d, interval %v", i, iv))
				return
			}
		}
	case "restart":
		for _, err := range s.mgmtErrs {
			if err != nil {
				rc.Inconcl = "management-pass-failed"
				return
			}
		}
		// every submission made while the module was online is followed by an execution of its task
		byTask := map[int][]*t2Op{}
		for _, o := range s.ops {
			byTask[o.Task] = append(byTask[o.Task], o)
		}
		for ti, ops := range byTask {
			last := ops[len(ops)-1]
			anyDown := false
			for _, o := range ops {
				anyDown = anyDown || o.Down
			}
			n := 0
			ok := false
			for _, e := range s.execs {
				if e.Task == ti {
					n++
					if e.BeginSeq > last.Inv {
						ok = true
					}
				}
			}
			name := fmt.Sprintf("t%d", ti)
			if s.secondLife > 0 && ti >= s.secondLife {
				name = fmt.Sprintf("t%d (created after the restart)", ti-s.secondLife)
			} else if ti >= len(p.Tasks) && ti-len(p.Tasks) < len(s.names) {
				name = s.names[ti-len(p.Tasks)] + " (created and queued by the start routine)"
			}
			if n > len(ops) {
				rc.Fail("C07.extra-run", "a task was executed more often than it was submitted (task never had a schedule entry)", fmt.Sprintf("%s: %d executions, %d submissions", name, n, len(ops)))
				return
			}
			if !ok && !anyDown {
				rc.Fail("C07.lost", "a submitted task was never executed after its last submission (submitted while the task was idle and its module online, in a run in which the module is stopped and started again)",
					fmt.Sprintf("%s: last submission %s at %v, %d executions", name, last.Op, last.T, n))
				return
			}
		}
	}
}
