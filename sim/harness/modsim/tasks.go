package modsim

import (
	"context"
	"fmt"
	"math/rand/v2"
	"sort"
	"time"

	"github.com/safing/portbase/modules"
	"github.com/safing/portbase/verifsim/simkit"
	"github.com/safing/portbase/verifsim/simrt"
)

// TaskPlan is a task workload (C07).
type TaskPlan struct {
	Tasks   []TSpec `json:"tasks"`
	Clients [][]TOp `json:"clients"`
	MTLoad  int     `json:"mt_load,omitempty"` // long medium-priority microtasks making time slots scarce
	Limit   int     `json:"limit"`
	// Calm: nothing but schedule operations on a few tasks that return at once: an execution may not lag behind its
	// scheduled time by more than a few execution-wait limits (delay ladder tCalm)
	Calm bool `json:"calm,omitempty"`
	// Scenario "repeat" / "restart": see tasks2.go
	Scenario string `json:"scenario,omitempty"`
}

// TSpec describes one task.
type TSpec struct {
	Dur      int    `json:"dur"`
	MaxDelay int    `json:"max_delay"`      // -1 default, 0 none, else tDelay index
	Self     string `json:"self,omitempty"` // requeue | resched | cancel | cancelsib | prio
	SelfArg  int    `json:"self_arg,omitempty"`
	Panic    bool   `json:"panic,omitempty"` // the first execution ends in a panic
}

// TOp is one client operation.
type TOp struct {
	Task int    `json:"task"`
	Op   string `json:"op"` // queue prio asap sched schedzero cancel sleep sleepon sleepoff (module sleep mode)
	Arg  int    `json:"arg,omitempty"`
}

var tDur = []time.Duration{0, time.Millisecond, time.Second, 59 * time.Second, 61 * time.Second, 3 * time.Minute}
var tDelay = []time.Duration{0, time.Second, 30 * time.Second, 2 * time.Minute, 10 * time.Minute}
var tCalm = []time.Duration{5 * time.Second, time.Minute, 10 * time.Minute, 25 * time.Minute}
var tSleep = []time.Duration{time.Millisecond, time.Second, 45 * time.Second, 3 * time.Minute}

func genTasks(rng *rand.Rand, tier string) *TaskPlan {
	if rng.IntN(8) == 0 {
		return genTasksScenario(rng, tier)
	}
	p := &TaskPlan{Limit: 2 + rng.IntN(4)}
	if rng.IntN(10) == 0 {
		p.Calm = true
		nt := 2 + rng.IntN(3)
		for i := 0; i < nt; i++ {
			p.Tasks = append(p.Tasks, TSpec{MaxDelay: -1, Dur: rng.IntN(2)})
		}
		for c, nc := 0, 1+rng.IntN(2); c < nc; c++ {
			var prog []TOp
			for i, n := 0, 2+rng.IntN(6); i < n; i++ {
				if rng.IntN(4) == 0 {
					prog = append(prog, TOp{Op: "sleep", Arg: rng.IntN(len(tSleep))})
				} else {
					prog = append(prog, TOp{Task: rng.IntN(nt), Op: "sched", Arg: rng.IntN(len(tCalm))})
				}
			}
			p.Clients = append(p.Clients, prog)
		}
		return p
	}
	nt := 1 + rng.IntN(6)
	longDur := rng.IntN(3) == 0
	noDelay := rng.IntN(3) == 0
	for i := 0; i < nt; i++ {
		t := TSpec{MaxDelay: -1}
		if longDur {
			t.Dur = rng.IntN(len(tDur))
		} else {
			t.Dur = rng.IntN(3)
		}
		switch {
		case noDelay:
			t.MaxDelay = 0
		case rng.IntN(3) == 0:
			t.MaxDelay = rng.IntN(len(tDelay))
		}
		if rng.IntN(5) == 0 {
			t.Self = []string{"requeue", "resched", "cancel", "cancelsib", "prio"}[rng.IntN(5)]
			t.SelfArg = rng.IntN(len(tDelay))
		}
		t.Panic = rng.IntN(8) == 0
		p.Tasks = append(p.Tasks, t)
	}
	nc := 1 + rng.IntN(3)
	ops := []string{"queue", "queue", "prio", "asap", "sched", "sched", "schedzero", "cancel", "sleep", "sleep"}
	if rng.IntN(3) == 0 {
		ops = []string{"queue", "prio", "asap", "sleep"}
	}
	if rng.IntN(4) == 0 {
		ops = []string{"sched", "queue", "sleep", "sched"}
	}
	if rng.IntN(6) == 0 {
		ops = append(ops, "sleepon", "sleepoff", "sched", "sleep")
	}
	for c := 0; c < nc; c++ {
		n := 1 + rng.IntN(7)
		if tier == "thorough" {
			n = 1 + rng.IntN(12)
		}
		var prog []TOp
		for i := 0; i < n; i++ {
			op := TOp{Task: rng.IntN(nt), Op: ops[rng.IntN(len(ops))]}
			if c > 0 && (op.Op == "sleepon" || op.Op == "sleepoff") {
				// one controller switches the sleep mode (Module.Sleep is not made for concurrent callers)
				op.Op = "sleep"
			}
			switch op.Op {
			case "sched":
				op.Arg = rng.IntN(len(tDelay))
			case "sleep":
				op.Arg = rng.IntN(len(tSleep))
			}
			prog = append(prog, op)
		}
		p.Clients = append(p.Clients, prog)
	}
	if rng.IntN(4) == 0 {
		p.MTLoad = 1 + rng.IntN(p.Limit+1)
	}
	for i, t := range p.Tasks {
		if t.Panic && rng.IntN(2) == 0 {
			// a failed execution, then, well after it, the task is wanted again
			c := rng.IntN(len(p.Clients))
			p.Clients[c] = append([]TOp{{Task: i, Op: "queue"}}, p.Clients[c]...)
			p.Clients[c] = append(p.Clients[c], TOp{Op: "sleep", Arg: 2 + rng.IntN(2)}, TOp{Task: i, Op: []string{"queue", "prio", "asap"}[rng.IntN(3)]})
		}
	}
	return p
}

type tOpRec struct {
	Task     int
	Op       string
	Inv, Ret uint64
	T        time.Duration // time of invocation
	At       time.Duration // sched: absolute scheduled time (sim time)
	Inside   bool
	Busy     bool // the task's previous execution was still in progress (as the package sees it) when the call was made
}

type tExec struct {
	Task     int
	BeginSeq uint64
	BeginT   time.Duration
	EndSeq   uint64
	EndT     time.Duration
	Ended    bool
	CtxErr   bool
}

type taskState struct {
	p       *TaskPlan
	rc      *simkit.RunCtx
	m       *modules.Module
	tasks   []*modules.Task
	ops     []*tOpRec
	execs   []*tExec
	running []int
	quietAt time.Duration
	t0      time.Time
	// commits: per task, the sequence numbers at which the package committed to an execution (the executing flag
	// went up; in the same critical section the task was taken out of all queues and the schedule)
	commits  [][]uint64
	releases [][]uint64 // ... and the sequence numbers at which the flag went down again
	wasExec  []bool
}

func (s *taskState) do(task int, op string, arg int, inside bool) {
	t := s.tasks[task]
	busy := modules.VerifSimTaskExecuting(t)
	if busy && len(s.commits) > task && len(s.commits[task]) > 0 {
		// The flag is up. That is "an execution in progress" while the function has not returned or the package is
		// cleaning up after it; it is not when the function returned long ago (e.g. with a panic) and the flag was
		// simply never taken down.
		c := s.commits[task][len(s.commits[task])-1]
		for _, e := range s.execs {
			if e.Task == task && e.BeginSeq > c && e.Ended && simrt.Now()-e.EndT > 30*time.Second {
				busy = false
			}
		}
	}
	r := &tOpRec{Task: task, Op: op, Inv: simrt.Seq(), T: simrt.Now(), Inside: inside, Busy: busy}
	s.ops = append(s.ops, r)
	switch op {
	case "queue":
		t.Queue()
	case "prio":
		t.QueuePrioritized()
	case "asap":
		t.StartASAP()
	case "sched":
		d := tDelay[arg%len(tDelay)]
		if s.p.Calm {
			d = tCalm[arg%len(tCalm)]
		}
		r.At = simrt.Now() + d
		t.Schedule(time.Now().Add(d))
	case "sleepon":
		modules.SetSleepMode(true)
		s.rc.Probe("sleep-mode-on")
	case "sleepoff":
		modules.SetSleepMode(false)
	case "schedzero":
		t.Schedule(time.Time{})
	case "cancel":
		t.Cancel()
	}
	r.Ret = simrt.Seq()
}

func execTasks(p *TaskPlan, rc *simkit.RunCtx) {
	if p.Scenario != "" {
		execTasksScenario(p, rc)
		return
	}
	s := &taskState{p: p, rc: rc, running: make([]int, len(p.Tasks))}
	rc.Data = s
	modules.SetMaxConcurrentMicroTasks(p.Limit)
	s.m = modules.Register("m00", nil, func() error { return nil }, func() error { return nil })
	if err := modules.Start(); err != nil {
		rc.Fail("C07.harness", "Start failed", err.Error())
		return
	}
	for i, ts := range p.Tasks {
		i, ts := i, ts
		t := s.m.NewTask(fmt.Sprintf("t%d", i), func(ctx context.Context, t *modules.Task) error {
			e := &tExec{Task: i, BeginSeq: simrt.Seq(), BeginT: simrt.Now(), CtxErr: ctx.Err() != nil}
			s.execs = append(s.execs, e)
			s.running[i]++
			if s.running[i] > 1 {
				rc.Fail("C07.self-overlap", "a task function ran concurrently with itself", fmt.Sprintf("task %d", i))
			}
			n := 0
			for _, x := range s.execs {
				if x.Task == i {
					n++
				}
			}
			if ts.Self != "" && n == 1 {
				switch ts.Self {
				case "requeue":
					s.do(i, "queue", 0, true)
				case "prio":
					s.do(i, "prio", 0, true)
				case "resched":
					s.do(i, "sched", ts.SelfArg, true)
				case "cancel":
					s.do(i, "cancel", 0, true)
				case "cancelsib":
					s.do((i+1)%len(p.Tasks), "cancel", 0, true)
				}
			}
			if d := tDur[ts.Dur]; d > 0 {
				select {
				case <-time.After(d):
				case <-ctx.Done():
				}
			}
			s.running[i]--
			e.EndSeq, e.EndT, e.Ended = simrt.Seq(), simrt.Now(), true
			if ts.Panic && n == 1 {
				// a failed execution is an execution: everything the statement says about later submissions holds
				rc.Fault("task-panic")
				panic(fmt.Sprintf("injected panic in task %d", i))
			}
			return nil
		})
		if ts.MaxDelay >= 0 {
			t.MaxDelay(tDelay[ts.MaxDelay])
		}
		s.tasks = append(s.tasks, t)
	}
	s.commits, s.releases, s.wasExec = make([][]uint64, len(s.tasks)), make([][]uint64, len(s.tasks)), make([]bool, len(s.tasks))
	rc.Sim.OnStep = func() {
		for i, t := range s.tasks {
			ex := modules.VerifSimTaskExecuting(t)
			if ex && !s.wasExec[i] {
				s.commits[i] = append(s.commits[i], simrt.Seq())
			}
			if !ex && s.wasExec[i] {
				s.releases[i] = append(s.releases[i], simrt.Seq())
			}
			s.wasExec[i] = ex
		}
	}
	for k := 0; k < p.MTLoad; k++ {
		s.m.StartMicroTask("load", time.Hour, func(ctx context.Context) error {
			select {
			case <-time.After(4 * time.Minute):
			case <-ctx.Done():
			}
			return nil
		})
	}
	done := make(chan struct{}, len(p.Clients))
	for _, prog := range p.Clients {
		prog := prog
		go func() {
			defer func() { done <- struct{}{} }()
			for _, op := range prog {
				if op.Op == "sleep" {
					time.Sleep(tSleep[op.Arg])
					continue
				}
				s.do(op.Task, op.Op, op.Arg, false)
			}
		}()
	}
	for range p.Clients {
		<-done
	}
	// the system wakes up for good: whatever came due while it slept is executed now
	modules.SetSleepMode(false)
	simrt.AwaitQuiescence(40 * time.Minute)
	s.quietAt = simrt.Now()
	_ = modules.Shutdown()
}

// queueOnlyShort: no task has a schedule entry (max delay 0 everywhere, no schedule operations), nothing was cancelled
// and no execution took a quarter of the execution-wait limit.
func queueOnlyShort(p *TaskPlan, s *taskState, execWait time.Duration) bool {
	for _, t := range p.Tasks {
		if t.MaxDelay != 0 || t.Self == "resched" || t.Self == "cancel" || t.Self == "cancelsib" {
			return false
		}
	}
	for _, o := range s.ops {
		if o.Op == "sched" || o.Op == "cancel" {
			return false
		}
	}
	for _, e := range s.execs {
		if !e.Ended || e.EndT-e.BeginT >= execWait/4 {
			return false
		}
	}
	return p.MTLoad == 0
}

func lastBeginBefore(execs []*tExec, seq uint64) uint64 {
	var b uint64
	for _, e := range execs {
		if e.BeginSeq < seq && e.BeginSeq > b {
			b = e.BeginSeq
		}
	}
	return b
}

func isSubmission(op string) bool {
	return op == "queue" || op == "prio" || op == "asap" || op == "sched"
}

func checkTasks(p *TaskPlan, rc *simkit.RunCtx) {
	if p.Scenario != "" {
		checkTasksScenario(p, rc)
		return
	}
	s, _ := rc.Data.(*taskState)
	if s == nil {
		return
	}
	sort.SliceStable(s.execs, func(i, j int) bool { return s.execs[i].BeginSeq < s.execs[j].BeginSeq })
	for _, o := range s.ops {
		rc.H("op t%d %s inside=%v", o.Task, o.Op, o.Inside)
	}
	for _, e := range s.execs {
		rc.H("exec t%d", e.Task)
	}
	if rc.Stats.Stalled {
		rc.Fail("C07.stall", "a task API call never returned", rc.Stats.StallInfo)
		return
	}
	if rc.Stats.StepCap || s.quietAt == 0 {
		rc.Inconcl = "step-cap"
		return
	}
	slotWait, execWait, _ := modules.VerifSimTaskLimits()
	for i := range p.Tasks {
		var myExecs []*tExec
		for _, e := range s.execs {
			if e.Task == i {
				myExecs = append(myExecs, e)
			}
		}
		var myOps []*tOpRec
		for _, o := range s.ops {
			if o.Task == i {
				myOps = append(myOps, o)
			}
		}
		// 1. no self overlap (also checked live)
		for k := 1; k < len(myExecs); k++ {
			if !myExecs[k-1].Ended || myExecs[k-1].EndSeq > myExecs[k].BeginSeq {
				rc.Fail("C07.self-overlap", "a task function ran concurrently with itself", fmt.Sprintf("task %d", i))
				return
			}
		}
		// 3. no run after cancel
		for _, o := range myOps {
			if o.Op != "cancel" {
				continue
			}
			executing := false
			for _, e := range myExecs {
				if e.BeginSeq < o.Ret && (!e.Ended || e.EndSeq > o.Inv) {
					executing = true
				}
			}
			if executing {
				continue
			}
			for _, e := range myExecs {
				if e.BeginSeq > o.Ret {
					// The task may already have been taken off the queue (waiting for its
					// time slot) when Cancel was called: then it is started with a context
					// that is already cancelled. Only a start with a live context, or one
					// later than any time-slot wait, shows that a waiting task was started.
					if e.CtxErr && e.BeginT-o.T <= slotWait+time.Second {
						rc.Probe("cancel-after-dequeue-tolerated")
						continue
					}
					rc.Fail("C07.run-after-cancel", "a task was started after it had been cancelled while waiting", fmt.Sprintf("task %d", i))
					return
				}
			}
		}
		// 2. not early
		for k, e := range myExecs {
			var since uint64
			if k > 0 {
				since = myExecs[k-1].BeginSeq
			}
			onlySched := true
			var scheds []*tOpRec
			n := 0
			for _, o := range myOps {
				if o.Inv < since || o.Inv > e.BeginSeq || !isSubmission(o.Op) {
					continue
				}
				n++
				if o.Op != "sched" {
					onlySched = false
					break
				}
				scheds = append(scheds, o)
			}
			// submissions made before the previous execution began may still be pending (e.g. queued twice): be lenient
			for _, o := range myOps {
				if o.Inv < since && isSubmission(o.Op) {
					onlySched = false
				}
			}
			if n == 0 || !onlySched {
				continue
			}
			// A schedule request is superseded (cannot be the one being served) if a
			// later request was made well before its time came; every other request
			// may already have been taken off the schedule when it was replaced.
			var cand []*tOpRec
			for xi, x := range scheds {
				superseded := false
				for _, y := range scheds[xi+1:] {
					if y.Inv > x.Ret && y.T < x.At-time.Second {
						superseded = true
					}
				}
				if !superseded {
					cand = append(cand, x)
				}
			}
			min := cand[0].At
			for _, o := range cand {
				if o.At < min {
					min = o.At
				}
			}
			if e.BeginT < min {
				note := ""
				for _, o := range myOps {
					if o.Op == "schedzero" && o.Inv < e.BeginSeq && o.Inv > since {
						note = " (while it was being un-scheduled)"
					}
				}
				rc.Fail("C07.early", "a task that was only scheduled started before its scheduled time"+note, fmt.Sprintf("task %d started at %v, scheduled for %v", i, e.BeginT, min))
				return
			}
			rc.Probe("scheduled-exec-checked")
		}
		// 4. nothing lost / nothing extra
		cancelled := false
		for _, o := range myOps {
			if o.Op == "cancel" {
				cancelled = true
			}
		}
		subs := 0
		var lastSub *tOpRec
		for _, o := range myOps {
			if isSubmission(o.Op) {
				subs++
				lastSub = o
			}
			if o.Op == "schedzero" {
				lastSub = nil
			}
		}
		if len(myExecs) > subs {
			kind := " (task never had a schedule entry)"
			if p.Tasks[i].MaxDelay != 0 {
				kind = " (task had a schedule entry)"
			}
			for _, o := range myOps {
				if o.Op == "sched" {
					kind = " (task had a schedule entry)"
				}
			}
			rc.Fail("C07.extra-run", "a task was executed more often than it was submitted"+kind, fmt.Sprintf("task %d: %d executions, %d submissions", i, len(myExecs), subs))
			return
		}
		if !cancelled && lastSub != nil {
			// a schedzero overlapping the last submission makes the outcome ambiguous
			amb := false
			for _, o := range myOps {
				if o.Op == "schedzero" && o.Ret > lastSub.Inv {
					amb = true
				}
			}
			ok := false
			for _, e := range myExecs {
				if e.BeginSeq > lastSub.Inv {
					ok = true
				}
			}
			if !ok && !amb {
				during := "while the task was idle"
				for _, o := range myOps {
					if isSubmission(o.Op) && o.Busy && o.Inv >= lastBeginBefore(myExecs, lastSub.Inv) {
						during = "while a previous execution of the task was still in progress"
						if queueOnlyShort(p, s, execWait) {
							// every start is made by the queue handler, which waits for the execution it started
							// (none comes near the wait limit): the submission stays queued until that one is over
							during = "during an execution the queue handler was waiting for (no schedule entries, no execution near the execution-wait limit)"
						}
					}
				}
				rc.Fail("C07.lost", "a submitted task was never executed after its last submission (submitted "+during+")",
					fmt.Sprintf("task %d: last submission %s at %v, %d executions", i, lastSub.Op, lastSub.T, len(myExecs)))
				return
			}
			if ok {
				rc.Probe("submission-executed")
			}
		}
	}
	// calm runs: nothing but schedule operations on tasks that return at once. Whatever is due is started by the
	// queue handler one after the other; the only thing that can hold up a start is the handler waiting out the
	// execution-wait limit for a predecessor, once per other task at most.
	if p.Calm {
		bound := time.Duration(len(p.Tasks))*execWait + 30*time.Second
		for i := range p.Tasks {
			var prev uint64
			for _, e := range s.execs {
				if e.Task != i {
					continue
				}
				// the schedule operation in force: the last one, or any of several that overlapped at the end
				var scheds []*tOpRec
				for _, o := range s.ops {
					if o.Task == i && o.Op == "sched" && o.Ret < e.BeginSeq {
						scheds = append(scheds, o)
					}
				}
				var at time.Duration
				var gov *tOpRec
				for _, o := range scheds {
					superseded := false
					for _, o2 := range scheds {
						if o2.Inv > o.Ret {
							superseded = true
						}
					}
					if !superseded && (gov == nil || o.At > at) {
						gov, at = o, o.At
					}
				}
				_ = prev
				prev = e.BeginSeq
				if gov == nil {
					continue
				}
				if e.BeginT > gov.At+bound {
					all := ""
					for _, o := range s.ops {
						all += fmt.Sprintf(" [t%d %s at %v for %v]", o.Task, o.Op, o.T, o.At)
					}
					for _, x := range s.execs {
						all += fmt.Sprintf(" {t%d ran %v}", x.Task, x.BeginT)
					}
					rc.Fail("C07.late", "a scheduled task was started long after its scheduled time although nothing but a few momentary tasks was due",
						fmt.Sprintf("task %d: scheduled for %v (operation at %v), started at %v, bound %v;%s", i, gov.At, gov.T, e.BeginT, bound, all))
					return
				}
				rc.Probe("calm-schedule-judged")
			}
		}
	}
	// sequencing of queue-driven starts: next only after previous returned / cancelled / exceeded the wait limit.
	// Only checked in runs without schedule entries (max delay 0 everywhere, no sched ops), where every start is queue driven.
	pure := true
	for _, t := range p.Tasks {
		if t.MaxDelay != 0 || t.Self == "resched" {
			pure = false
		}
	}
	for _, o := range s.ops {
		if o.Op == "sched" {
			pure = false
		}
	}
	if !pure {
		checkDirectStarts(s, p, rc, execWait)
		if rc.Failed() {
			return
		}
	}
	if pure {
		rc.Probe("pure-queue-run")
		for k := 1; k < len(s.execs); k++ {
			a, b := s.execs[k-1], s.execs[k]
			if a.Ended && a.EndSeq < b.BeginSeq {
				continue
			}
			if b.BeginT-a.BeginT >= execWait-time.Second {
				continue
			}
			// One of the two cancelled before the later one began? (A task cancelled after the queue handler
			// committed to it still runs, but the handler does not wait for it: its function may even begin
			// after that of its successor.)
			can := false
			for _, o := range s.ops {
				if (o.Task == a.Task || o.Task == b.Task) && o.Op == "cancel" && o.Inv < b.BeginSeq {
					can = true
				}
			}
			if can {
				continue
			}
			rc.Fail("C07.queue-overlap", "a queued task was started while the previously started one was still running within the execution-wait limit",
				fmt.Sprintf("task %d began at %v, task %d began at %v", a.Task, a.BeginT, b.Task, b.BeginT))
			return
		}
		checkQueueOrder(s, p, rc)
	}
}

func shrinkTasks(p *TaskPlan) []any {
	var out []any
	if p.Scenario != "" {
		return nil
	}
	clone := func() *TaskPlan {
		q := *p
		q.Tasks = append([]TSpec(nil), p.Tasks...)
		q.Clients = nil
		for _, c := range p.Clients {
			q.Clients = append(q.Clients, append([]TOp(nil), c...))
		}
		return &q
	}
	if len(p.Clients) > 1 {
		for i := range p.Clients {
			q := clone()
			q.Clients = append(q.Clients[:i], q.Clients[i+1:]...)
			out = append(out, q)
		}
		// merge all into one client
		q := clone()
		var all []TOp
		for _, c := range q.Clients {
			all = append(all, c...)
		}
		q.Clients = [][]TOp{all}
		out = append(out, q)
	}
	for ci, c := range p.Clients {
		for oi := range c {
			q := clone()
			q.Clients[ci] = append(q.Clients[ci][:oi], q.Clients[ci][oi+1:]...)
			out = append(out, q)
		}
	}
	if p.MTLoad > 0 {
		q := clone()
		q.MTLoad = 0
		out = append(out, q)
	}
	// drop the last task if unused
	last := len(p.Tasks) - 1
	if last > 0 {
		used := false
		for _, c := range p.Clients {
			for _, o := range c {
				if o.Task == last {
					used = true
				}
			}
		}
		for _, t := range p.Tasks {
			if t.Self == "cancelsib" {
				used = true
			}
		}
		if !used {
			q := clone()
			q.Tasks = q.Tasks[:last]
			out = append(out, q)
		}
	}
	for i, t := range p.Tasks {
		if t.Self != "" {
			q := clone()
			q.Tasks[i].Self = ""
			out = append(out, q)
		}
		if t.Dur > 0 {
			q := clone()
			q.Tasks[i].Dur = 0
			out = append(out, q)
		}
		if t.MaxDelay != -1 {
			q := clone()
			q.Tasks[i].MaxDelay = -1
			out = append(out, q)
		}
	}
	for ci, c := range p.Clients {
		for oi, o := range c {
			if o.Arg > 0 {
				q := clone()
				q.Clients[ci][oi].Arg = 0
				out = append(out, q)
			}
		}
	}
	return out
}

// checkDirectStarts covers runs with schedule entries. There a start may legitimately bypass the queue: the
// schedule handler starts a task directly once its maximum delay after queueing has passed. Two executions may
// therefore overlap within the execution-wait limit only if at least one of them can have been such a direct
// start; two starts that both must have come through the queue may not.
func checkDirectStarts(s *taskState, p *TaskPlan, rc *simkit.RunCtx, execWait time.Duration) {
	delay := func(task int) time.Duration {
		switch md := p.Tasks[task].MaxDelay; {
		case md < 0:
			_, _, d := modules.VerifSimTaskLimits()
			return d
		default:
			return tDelay[md]
		}
	}
	eligible := func(e *tExec) bool {
		// A request arms up to two start paths (the queue entry and the schedule entry; that both can fire is the
		// listed extra-run finding), and every commit of the task wipes what is armed at that moment. A request is
		// therefore certainly spent only after two commits; for the combination rule below one commit is enough.
		var own, prevBegin1, prevBegin uint64
		for _, c := range s.commits[e.Task] {
			if c < e.BeginSeq && c > own {
				own = c
			}
		}
		for _, c := range s.commits[e.Task] {
			if c < own && c > prevBegin1 {
				prevBegin1 = c
			}
		}
		for _, c := range s.commits[e.Task] {
			if c < prevBegin1 && c > prevBegin {
				prevBegin = c
			}
		}
		d := delay(e.Task)
		var queued, sched []time.Duration
		fresh := 0 // requests since the previous commit that put or find the task in a queue by the time e began
		for _, o := range s.ops {
			if o.Task != e.Task || o.Inv > e.BeginSeq || (o.Ret != 0 && o.Ret < prevBegin) {
				continue
			}
			isFresh := o.Ret == 0 || o.Ret >= prevBegin1
			switch o.Op {
			case "queue", "prio", "asap":
				queued = append(queued, o.T)
				if isFresh {
					fresh++
				}
			case "sched":
				sched = append(sched, o.At)
				if isFresh && o.At <= e.BeginT {
					fresh++
				}
			case "schedzero":
				// un-scheduling arms nothing (before the fix 1e05802 it could start a queued task at once)
			}
		}
		for _, t := range queued {
			if d > 0 && t+d <= e.BeginT {
				return true
			}
		}
		due := 0
		for _, t := range sched {
			if t+d <= e.BeginT {
				return true
			}
			if t <= e.BeginT {
				due++
			}
		}
		// A task that is waiting in a queue (put there by a request or by the schedule handler when its first
		// scheduled time came) and is then given a new scheduled time is started directly at that time.
		if due > 0 && fresh >= 2 {
			return true
		}
		return false
	}
	for i, a := range s.execs {
		for _, b := range s.execs[i+1:] {
			if a.Ended && a.EndSeq < b.BeginSeq {
				continue
			}
			if b.BeginT-a.BeginT >= execWait-time.Second {
				continue
			}
			can := false
			for _, o := range s.ops {
				if (o.Task == a.Task || o.Task == b.Task) && o.Op == "cancel" && o.Inv < b.BeginSeq {
					can = true
				}
			}
			if can || eligible(a) || eligible(b) {
				rc.Probe("overlap-with-direct-start")
				continue
			}
			// A direct start that the schedule handler decided on before the task's previous execution was committed
			// is carried out as soon as that execution has finished (the handler waits for the task lock meanwhile):
			// the listed extra-run finding. Such a back-to-back re-execution is not a start that came through the queue.
			backToBack := func(e *tExec) bool {
				for _, x := range s.execs {
					if x.Task == e.Task && x != e && x.Ended && x.EndSeq < e.BeginSeq && e.BeginT-x.EndT <= time.Millisecond {
						return true
					}
				}
				return false
			}
			if backToBack(a) || backToBack(b) {
				rc.Probe("overlap-after-back-to-back-rerun")
				continue
			}
			rc.Fail("C07.queue-overlap", "a task that had to come through the queue was started while another such task was still running within the execution-wait limit (runs with schedule entries)",
				fmt.Sprintf("task %d began at %v and was still running when task %d began at %v; neither had a maximum delay that could have expired", a.Task, a.BeginT, b.Task, b.BeginT))
			return
		}
	}
}
