// Package modsim drives portbase/modules (with portbase/log) inside the
// simulator: C01, C05, C06, C07, C15.
package modsim

import (
	"bytes"
	"encoding/json"
	"fmt"
	"math/rand/v2"
	"os"
	"time"

	"github.com/safing/portbase/log"
	"github.com/safing/portbase/modules"
	"github.com/safing/portbase/verifsim/simkit"
	"github.com/safing/portbase/verifsim/simrt"
)

// H is the harness.
type H struct{}

var durLadder = []time.Duration{0, time.Millisecond, 300 * time.Millisecond, 5 * time.Second, 40 * time.Second}

func (H) Reset() {
	log.VerifSimReset()
	modules.VerifSimReset()
	log.SetAdapter(log.AdapterFunc(func(msg log.Message, duplicates uint64) {}))
}

func (H) Generate(prop string, rng *rand.Rand, tier string) any {
	switch prop {
	case "C01":
		if os.Getenv("VERIF_STAGE") == "also" {
			// second stage of C01: modules with managed work ("completely stopped" includes the work of a module)
			return genWork(rng, tier, "C01")
		}
		return genC01(rng, tier)
	case "C05", "C06":
		return genWork(rng, tier, prop)
	case "C07":
		return genTasks(rng, tier)
	case "C15":
		return genMT(rng, tier)
	}
	panic("modsim: unknown property " + prop)
}

func (H) Decode(prop string, raw json.RawMessage) (any, error) {
	switch prop {
	case "C01":
		if bytes.Contains(raw, []byte(`"items"`)) {
			p := &WorkPlan{}
			return p, json.Unmarshal(raw, p)
		}
		p := &C01Plan{}
		return p, json.Unmarshal(raw, p)
	case "C05", "C06":
		p := &WorkPlan{}
		return p, json.Unmarshal(raw, p)
	case "C07":
		p := &TaskPlan{}
		return p, json.Unmarshal(raw, p)
	case "C15":
		p := &MTPlan{}
		return p, json.Unmarshal(raw, p)
	}
	return nil, fmt.Errorf("modsim: unknown property %s", prop)
}

func (H) Execute(prop string, plan any, rc *simkit.RunCtx) {
	switch prop {
	case "C01":
		if wp, ok := plan.(*WorkPlan); ok {
			execWork(prop, wp, rc)
			return
		}
		execC01(plan.(*C01Plan), rc)
	case "C05", "C06":
		execWork(prop, plan.(*WorkPlan), rc)
	case "C07":
		execTasks(plan.(*TaskPlan), rc)
	case "C15":
		execMT(plan.(*MTPlan), rc)
	}
}

func (H) Check(prop string, plan any, rc *simkit.RunCtx) {
	switch prop {
	case "C01":
		if wp, ok := plan.(*WorkPlan); ok {
			checkWork(prop, wp, rc)
			return
		}
		checkC01(plan.(*C01Plan), rc)
	case "C05", "C06":
		checkWork(prop, plan.(*WorkPlan), rc)
	case "C07":
		checkTasks(plan.(*TaskPlan), rc)
	case "C15":
		checkMT(plan.(*MTPlan), rc)
	}
}

func (H) Shrink(prop string, plan any) []any {
	switch prop {
	case "C01":
		if wp, ok := plan.(*WorkPlan); ok {
			return shrinkWork(wp)
		}
		return shrinkC01(plan.(*C01Plan))
	case "C05", "C06":
		return shrinkWork(plan.(*WorkPlan))
	case "C07":
		return shrinkTasks(plan.(*TaskPlan))
	case "C15":
		return shrinkMT(plan.(*MTPlan))
	}
	return nil
}

func (H) Tune(prop string, plan any, cfg *simrt.Config) {
	if cfg.MaxSteps == 0 {
		cfg.MaxSteps = 60000
	}
	// C07: the queues and the schedule are linked lists guarded by two locks; unordered accesses corrupt them in a
	// real execution (lost entries, endless loops) but not in the simulation: predicted from happens-before
	cfg.Race = prop == "C07"
	if prop == "C07" || prop == "C15" {
		cfg.MaxAdvIdx = 2
		if cfg.PAdvance > 0.02 {
			cfg.PAdvance = 0.02
		}
	}
	if prop == "C05" || prop == "C06" {
		cfg.MaxAdvIdx = 2 // promptness is measured in simulated time: only small clock steps while goroutines are runnable
		if cfg.PAdvance > 0.02 {
			cfg.PAdvance = 0.02
		}
	}
	if prop == "C01" {
		cfg.MaxAdvIdx = 3 // lifecycle timeouts are out of scope: no long clock jumps while callbacks are runnable
	}
}

// ev is one lifecycle event recorded by harness callbacks.
type ev struct {
	Seq   uint64
	T     time.Duration
	Mod   int
	Phase string // prep | start | stop
	Kind  string // begin | end
	OK    bool
	Inv   int // invocation number of this phase on this module
}

func modName(i int) string { return fmt.Sprintf("m%02d", i) }
