package modsim

import (
	"fmt"
	"sort"
	"strings"
	"time"

	"github.com/anishathalye/porcupine"

	"github.com/safing/portbase/verifsim/simkit"
)

type qIn struct {
	Op   string
	Task int
	Busy string // start: tasks that were executing at some time since the previous start (",<id>;" each)
}

type qState struct {
	P, N     string // comma separated task ids, each entry ",<id>"
	Inflight int    // 1 + the task the handler has taken off the queue and not yet committed to (0: none)
}

func qHas(l string, t int) bool { return strings.Contains(l, fmt.Sprintf(",%d;", t)) }
func qDel(l string, t int) string {
	return strings.Replace(l, fmt.Sprintf(",%d;", t), "", 1)
}
func qHead(l string) (int, bool) {
	if l == "" {
		return 0, false
	}
	var t int
	fmt.Sscanf(l, ",%d;", &t)
	return t, true
}

var queueModel = porcupine.Model{
	Init: func() interface{} { return qState{} },
	Step: func(state, input, output interface{}) (bool, interface{}) {
		st := state.(qState)
		in := input.(qIn)
		e := fmt.Sprintf(",%d;", in.Task)
		if st.Inflight == in.Task+1 && (in.Op == "queue" || in.Op == "prio" || in.Op == "asap") {
			// Between the moment the handler takes a task off the queue and the moment it commits to it (and
			// wipes all entries of the task), a new request for that task either finds the stale entry and adds
			// nothing, or adds an entry that the commit wipes: it is served by the execution that follows.
			return true, st
		}
		switch in.Op {
		case "queue":
			if !qHas(st.N, in.Task) {
				st.N += e
			}
		case "prio":
			if !qHas(st.P, in.Task) {
				st.P += e
			}
		case "asap":
			st.P = e + qDel(st.P, in.Task)
		case "schedzero", "cancel":
			st.P = qDel(st.P, in.Task)
			st.N = qDel(st.N, in.Task)
		case "commit":
			if st.Inflight != in.Task+1 {
				return false, st
			}
			st.Inflight = 0
			st.P = qDel(st.P, in.Task)
			st.N = qDel(st.N, in.Task)
		case "start":
			if st.Inflight != 0 {
				return false, st
			}
			st.Inflight = in.Task + 1
			for {
				h, ok := qHead(st.P)
				if !ok {
					h, ok = qHead(st.N)
				}
				if !ok {
					return false, st
				}
				if h != in.Task {
					// The handler takes a task that is (still) executing off all queues and moves on; what
					// becomes of such a submission is the subject of the nothing-lost clause, not of the order.
					if qHas(in.Busy, h) {
						st.P = qDel(st.P, h)
						st.N = qDel(st.N, h)
						continue
					}
					return false, st
				}
				break
			}
			st.P = qDel(st.P, in.Task)
			st.N = qDel(st.N, in.Task)
		}
		return true, st
	},
	Equal: func(a, b interface{}) bool { return a.(qState) == b.(qState) },
}

// checkQueueOrder: the sequence of queue-driven starts must be explainable by
// the three-tier order of the statement (linearizability against the queue
// model; submissions overlapping a pop are order-ambiguous).
func checkQueueOrder(s *taskState, p *TaskPlan, rc *simkit.RunCtx) {
	for _, t := range p.Tasks {
		if t.Dur > 2 {
			return
		}
	}
	cancelled := map[int]uint64{}
	var ops []porcupine.Operation
	id := 0
	for _, o := range s.ops {
		switch o.Op {
		case "queue", "prio", "asap", "schedzero", "cancel":
			// submissions to a cancelled task are no-ops
			if c, ok := cancelled[o.Task]; ok && c < o.Inv && o.Op != "cancel" {
				continue
			}
			if o.Op == "cancel" {
				if _, ok := cancelled[o.Task]; !ok {
					cancelled[o.Task] = o.Ret
				}
			}
			ops = append(ops, porcupine.Operation{ClientId: id % 8, Input: qIn{o.Op, o.Task, ""}, Call: 2 * int64(o.Inv), Return: 2 * int64(o.Ret)})
			id++
		}
	}
	// a submission racing with a cancel of the same task is ambiguous: skip such runs
	for _, o := range s.ops {
		if c, ok := cancelled[o.Task]; ok && o.Op != "cancel" && o.Ret > 0 && o.Inv < c {
			for _, o2 := range s.ops {
				if o2.Task == o.Task && o2.Op == "cancel" && o2.Inv < o.Ret && o.Inv < o2.Ret {
					rc.Probe("order-check-skipped-cancel-race")
					return
				}
			}
		}
	}
	// A start is decided when the queue handler takes the task off the queue, between the moment it committed to
	// the previous task and the moment it commits to this one (executing flag up), not when the function begins.
	type startEv struct {
		task   int
		commit uint64
	}
	var starts []startEv
	for i := range s.tasks {
		n := 0
		for _, e := range s.execs {
			if e.Task == i {
				n++
			}
		}
		if n != len(s.commits[i]) {
			rc.Probe("order-check-skipped-commit-mismatch")
			return
		}
		for _, c := range s.commits[i] {
			starts = append(starts, startEv{i, c})
		}
	}
	sort.Slice(starts, func(a, b int) bool { return starts[a].commit < starts[b].commit })
	var prev uint64
	for _, st := range starts {
		busy := ""
		for i := range s.tasks {
			for k, c := range s.commits[i] {
				rel := ^uint64(0)
				if k < len(s.releases[i]) {
					rel = s.releases[i][k]
				}
				if c < st.commit && rel > prev && i != st.task {
					busy += fmt.Sprintf(",%d;", i)
					break
				}
			}
		}
		// (a task is also in its own way: an entry made after its previous commit is dropped while it still executes)
		ops = append(ops, porcupine.Operation{ClientId: 9, Input: qIn{"start", st.task, busy}, Call: 2*int64(prev) + 1, Return: 2*int64(st.commit) - 1})
		ops = append(ops, porcupine.Operation{ClientId: 9, Input: qIn{"commit", st.task, ""}, Call: 2 * int64(st.commit), Return: 2 * int64(st.commit)})
		prev = st.commit
	}
	if len(ops) > 40 {
		rc.Probe("order-check-skipped-long")
		return
	}
	// porcupine wants distinct client ids per concurrent op; give every op its own
	for i := range ops {
		ops[i].ClientId = i
	}
	res := porcupine.CheckOperationsTimeout(queueModel, ops, 5*time.Second)
	switch res {
	case porcupine.Illegal:
		var sb strings.Builder
		for _, e := range s.execs {
			fmt.Fprintf(&sb, "t%d ", e.Task)
		}
		rc.Fail("C07.queue-order", "queue-driven starts are not in the order asap (latest first), prioritized (FIFO), normal (FIFO)", "start order: "+sb.String())
	case porcupine.Unknown:
		rc.Probe("porcupine-unknown")
	default:
		rc.Probe("queue-order-checked")
	}
}
